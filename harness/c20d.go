package main

// Directed query-side schedules (C20-C23): situations random schedules over small populations do not
// reach - many candidate files behind a stalled consumer, cancellation followed by a failing read, queries
// on a stopped engine with many blocks, a cancelled query waiting for a slot, a single corrupt filter
// section inside a healthy file. Each is a direct monitor of the property on the implementation.

import (
	"bytes"
	"context"
	"errors"
	"fmt"
	"math"
	"os"
	"os/exec"
	"runtime"
	"strings"
	"sync"
	"time"

	bs "github.com/danthegoodman1/bloomsearch"
)

// dirPop builds nfiles files of rowsPer rows each; parts > 1 spreads each file's rows over that many
// partitions (blocks). Every row has "w":"needle".
func dirPop(mqc, nfiles, rowsPer, parts int) (*Env, int) {
	cfg := bs.DefaultBloomSearchEngineConfig()
	cfg.PartitionFunc = partitionFunc("p")
	cfg.MaxBufferedTime = time.Hour
	cfg.RowDataCompression = bs.CompressionNone
	cfg.MaxQueryConcurrency = mqc
	env := NewEnv(cfg)
	id := 0
	for f := 0; f < nfiles; f++ {
		var rows []map[string]any
		for j := 0; j < rowsPer; j++ {
			id++
			rows = append(rows, map[string]any{"_id": id, "p": fmt.Sprint("p", j%parts), "w": "needle"})
		}
		if err := env.IngestWait(rows); err != nil {
			fatal("dirPop ingest: %v", err)
		}
	}
	env.Stop()
	return env, id
}

func freshOver(env *Env, mode string) *bs.BloomSearchEngine {
	eng, err := bs.NewBloomSearchEngine(env.Cfg, env.Meta, env.Data)
	if err != nil {
		fatal("engine: %v", err)
	}
	switch mode {
	case "started":
		eng.Start()
	case "stopped":
		eng.Start()
		eng.Stop(context.Background())
	}
	return eng
}

// drainWatch drains a cursor with a watchdog; ok=false when Next never returned false.
func drainWatch(res *bs.Results, limit time.Duration) (rows []map[string]any, ok bool) {
	done := make(chan struct{})
	go func() {
		for res.Next() {
			rows = append(rows, res.Row())
		}
		close(done)
	}()
	select {
	case <-done:
		return rows, true
	case <-time.After(limit):
		return nil, false
	}
}

// closeWatch calls Close under a watchdog; false when it did not return in time.
func closeWatch(res *bs.Results, limit time.Duration) bool {
	done := make(chan struct{})
	go func() { res.Close(); close(done) }()
	select {
	case <-done:
		return true
	case <-time.After(limit):
		return false
	}
}

func directedQuerySide(c *ctx, r Rng, which string) {
	switch which {
	case "C20":
		dirTerminalStable(c, r)
		dirStoppedEngineComplete(c, r)
		dirCloseWithBackedUpPipeline(c, r)
		dirFaultAtEveryStoreCall(c, r)
		dirCancelCause(c, r)
		dirOpenInterruptedOnlyByCtx(c, r)
	case "C21":
		dirReadFailsAfterCancel(c, r)
		dirCloseWithBackedUpPipeline(c, r)
		dirTerminalWhileReadInFlight(c, r)
	case "C22":
		dirCancelledWaiterReads(c, r)
		dirStalledSectionless(c, r)
		dirStalledBloomManyFiles(c, r)
		dirOpensCountAsIO(c, r)
	case "C23":
		dirCorruptFilterSection(c, r)
		dirReversedSectionsReadFault(c, r)
		dirRowFromAbandonedScan(c, r)
	case "C24":
		dirBoundaryPrefilters(c, r)
		dirMixedSections(c, r)
		dirRegexGuard(c, r)
		dirPartialFilterSets(c, r)
	}
}

// dirTerminalStable: the cursor reaches its terminal state through Next (cleanly or with recorded failures);
// only then is the Query context cancelled, and Close called: Err must not change.
func dirTerminalStable(c *ctx, r Rng) {
	for i := 0; i < 6*c.scale; i++ {
		env, total := dirPop(pick(r, []int{1, 4}), 3+r.IntN(4), 2, 1)
		fault := r.Chance(0.5)
		env.Data.ClearFaults()
		if fault {
			env.Data.SetFaults([]string{pick(r, []string{"open", "read"})}, 1+r.IntN(3))
		}
		eng := freshOver(env, pick(r, []string{"never", "started", "stopped"}))
		ctx, cancel := context.WithCancel(context.Background())
		res, err := eng.Query(ctx, &bs.Query{})
		if err != nil {
			cancel()
			continue
		}
		rows, ok := drainWatch(res, 10*time.Second)
		e1 := res.Err()
		cancel()
		time.Sleep(time.Millisecond)
		cerr := res.Close()
		e2 := res.Err()
		again := res.Next()
		env.Data.ClearFaults()
		replay := map[string]any{"files": len(rows), "total": total, "fault": fault, "err_after_next": errStr(e1), "err_after_cancel_and_close": errStr(e2)}
		c.r.Case(true, fmt.Sprint("terminal-stable", i, fault))
		c.r.Hit("directed.terminal-stable")
		if !ok {
			c.r.Add(Finding{Kind: "violation", Check: "next-never-false", Detail: "Next did not return false within 10s", Replay: replay})
			continue
		}
		if errStr(e1) != errStr(e2) || again || cerr != nil {
			c.r.Add(Finding{Kind: "violation", Check: "terminal-state-changed", Detail: fmt.Sprintf("Next had returned false with Err=%s; after cancelling the context and calling Close, Err=%s (Close returned %v, Next again %v): a decided terminal state must not change", errStr(e1), errStr(e2), cerr, again), Replay: replay})
		}
		if !fault && e1 == nil && len(rows) != total {
			c.r.Add(Finding{Kind: "violation", Check: "clean-completion-incomplete", Detail: fmt.Sprintf("clean completion returned %d of %d rows", len(rows), total), Replay: replay})
		}
	}
}

// dirStoppedEngineComplete: many single-block files on never-started / started / stopped engines; a query
// that ends with a nil error has returned every row.
func dirStoppedEngineComplete(c *ctx, r Rng) {
	for i := 0; i < 3*c.scale; i++ {
		env, total := dirPop(pick(r, []int{1, 2, 1000}), 40, 1, 1)
		for _, mode := range []string{"never", "started", "stopped"} {
			eng := freshOver(env, mode)
			res, err := eng.Query(context.Background(), pick(r, []*bs.Query{{}, bs.NewQuery().Token("needle").Build()}))
			if err != nil {
				continue
			}
			rows, ok := drainWatch(res, 10*time.Second)
			e := res.Err()
			res.Close()
			if mode == "started" {
				eng.Stop(context.Background())
			}
			replay := map[string]any{"engine": mode, "files": 40, "returned": len(rows), "err": errStr(e), "MaxQueryConcurrency": env.Cfg.MaxQueryConcurrency}
			c.r.Case(true, fmt.Sprint("engine-modes", i, mode))
			c.r.Hit("directed.engine-" + mode)
			if !ok {
				c.r.Add(Finding{Kind: "violation", Check: "next-never-false", Detail: "Next did not return false within 10s on a " + mode + " engine", Replay: replay})
				continue
			}
			if e == nil && len(rows) != total {
				c.r.Add(Finding{Kind: "violation", Check: "clean-completion-incomplete", Detail: fmt.Sprintf("query on a %s engine ended with a nil error after %d of %d rows", mode, len(rows), total), Replay: replay})
			}
		}
	}
}

// dirReadFailsAfterCancel: a worker's read is parked in the store; the query is cancelled; the parked read
// then fails. Every opened handle must still be closed.
func dirReadFailsAfterCancel(c *ctx, r Rng) {
	for i := 0; i < 8*c.scale; i++ {
		env, _ := dirPop(pick(r, []int{1, 2, 4}), 3+r.IntN(4), 3, 1+r.IntN(2))
		eng := freshOver(env, "never")
		base := runtime.NumGoroutine()
		k := 1 + r.IntN(6)
		pk := newParker("read", k)
		env.Data.ResetLog()
		env.Data.Gate = func(op, file string) { pk.hit(op) }
		ctx, cancel := context.WithCancel(context.Background())
		q := pick(r, []*bs.Query{{}, bs.NewQuery().Token("needle").Build()})
		res, err := eng.Query(ctx, q)
		if err != nil {
			cancel()
			env.Data.Gate = nil
			continue
		}
		parked := false
		select {
		case <-pk.parked:
			parked = true
		case <-time.After(300 * time.Millisecond):
			pk.disarm()
		}
		useClose := r.Chance(0.3)
		if useClose {
			go res.Close()
		} else {
			cancel()
		}
		time.Sleep(2 * time.Millisecond)
		if parked {
			env.Data.SetFaults([]string{"read"}, 1) // the parked read is the next counted one: it fails
			close(pk.release)
		}
		_, ok := drainWatch(res, 10*time.Second)
		res.Close()
		cancel()
		env.Data.Gate = nil
		env.Data.ClearFaults()
		replay := map[string]any{"parked_read": k, "parked": parked, "terminated_by": map[bool]string{true: "Close", false: "cancel"}[useClose], "err": errStr(res.Err())}
		c.r.Case(parked, fmt.Sprint("read-fails-after-cancel", i, k))
		c.r.Hit("directed.read-fails-after-cancel." + b2s(parked))
		if !ok {
			c.r.Add(Finding{Kind: "violation", Check: "next-never-false", Detail: "Next did not return false within 10s after cancel + failing read", Replay: replay})
			continue
		}
		time.Sleep(5 * time.Millisecond)
		if n := env.Data.OpenHandles(); n != 0 {
			c.r.Add(Finding{Kind: "violation", Check: "handles-left-open", Detail: fmt.Sprintf("%d DataStore handles still open after a query whose in-flight read failed after it was cancelled", n), Replay: replay})
		}
		if m := env.Data.Misuses(); len(m) > 0 {
			c.r.Add(Finding{Kind: "violation", Check: "handle-misuse", Detail: "handle discipline breached: " + strings.Join(m[:min(3, len(m))], "; "), Replay: replay})
		}
		if n := waitGoroutines(base); n > base {
			c.r.Add(Finding{Kind: "violation", Check: "goroutines-left", Detail: fmt.Sprintf("%d goroutines still running (baseline %d)", n, base), Replay: replay})
		}
		if n := eng.VerifSemaphoreInUse(); n != 0 {
			c.r.Add(Finding{Kind: "violation", Check: "semaphore-not-restored", Detail: fmt.Sprintf("%d slots still taken", n), Replay: replay})
		}
	}
}

// dirCloseWithBackedUpPipeline: more candidate files than the pipeline holds in flight, a consumer that reads
// nothing: Close (or cancel) must still return, and everything must be released.
func dirCloseWithBackedUpPipeline(c *ctx, r Rng) {
	for i := 0; i < 4*c.scale; i++ {
		// many candidate files, or one file with many candidate blocks: either stage's dispatch can be the one
		// that is blocked when Close arrives
		nfiles, per, parts := 60, 1, 1
		if i%2 == 1 {
			nfiles, per, parts = 1, 96, 96
		}
		env, _ := dirPop(pick(r, []int{1, 1, 2}), nfiles, per, parts)
		env.Meta.(*FaultMeta).yieldGate = true
		eng := freshOver(env, pick(r, []string{"never", "started"}))
		base := runtime.NumGoroutine()
		env.Data.ResetLog()
		ctx, cancel := context.WithCancel(context.Background())
		res, err := eng.Query(ctx, &bs.Query{})
		if err != nil {
			cancel()
			continue
		}
		// wait until the pipeline has backed up: no store call for 150 ms
		last, stable := -1, 0
		for stable < 15 {
			time.Sleep(10 * time.Millisecond)
			n := len(env.Data.Log())
			if n == last {
				stable++
			} else {
				stable, last = 0, n
			}
		}
		yields := env.Data.CountCalls("yield")
		if i%2 == 1 {
			res.Next() // one row consumed, then the consumer stops
		}
		useCancel := i%4 == 2
		closed := make(chan struct{})
		go func() {
			if useCancel {
				cancel()
				for res.Next() {
				}
			}
			res.Close()
			close(closed)
		}()
		replay := map[string]any{"files": nfiles, "blocks_per_file": parts, "yielded_before_close": yields, "MaxQueryConcurrency": env.Cfg.MaxQueryConcurrency, "terminated_by": map[bool]string{true: "cancel", false: "Close"}[useCancel]}
		c.r.Case(true, fmt.Sprint("backed-up-close", i))
		c.r.Hit("directed.backed-up-close")
		select {
		case <-closed:
		case <-time.After(5 * time.Second):
			c.r.Add(Finding{Kind: "violation", Check: "close-hangs", Detail: fmt.Sprintf("Close did not return within 5s: the consumer had stopped reading, %d of %d candidate files (%d blocks each) had been handed to the pipeline", yields, nfiles, parts), Replay: replay})
			cancel()
			select {
			case <-closed:
			case <-time.After(5 * time.Second):
			}
		}
		cancel()
		if n := env.Data.OpenHandles(); n != 0 {
			c.r.Add(Finding{Kind: "violation", Check: "handles-left-open", Detail: fmt.Sprintf("%d DataStore handles still open after Close with a backed-up pipeline", n), Replay: replay})
		}
		if n := waitGoroutines(base); n > base {
			c.r.Add(Finding{Kind: "violation", Check: "goroutines-left", Detail: fmt.Sprintf("%d goroutines still running after Close with a backed-up pipeline (baseline %d)", n, base), Replay: replay})
		}
		if eng.VerifSemaphoreInUse() != 0 {
			c.r.Add(Finding{Kind: "violation", Check: "semaphore-not-restored", Detail: "slots still taken after Close with a backed-up pipeline", Replay: replay})
		}
		if eng != nil {
			eng.Stop(context.Background())
		}
	}
}

// dirCancelledWaiterReads: with every slot held by a query pinned inside a store read, a second query waits
// for a slot and is cancelled while waiting: it must not read without a slot.
func dirCancelledWaiterReads(c *ctx, r Rng) {
	for i := 0; i < 6*c.scale; i++ {
		mqc := pick(r, []int{1, 1, 2})
		env, _ := dirPop(mqc, 6, 2, 1)
		eng := freshOver(env, "never")
		env.Data.ResetLog()
		env.Data.ResetReadGauge()
		// pin mqc reads
		var mu sync.Mutex
		pinned := 0
		release := make(chan struct{})
		allPinned := make(chan struct{})
		env.Data.Gate = func(op, file string) {
			if op != "read" {
				return
			}
			mu.Lock()
			if pinned >= mqc {
				mu.Unlock()
				return
			}
			pinned++
			if pinned == mqc {
				close(allPinned)
			}
			mu.Unlock()
			<-release
		}
		hres, err := eng.Query(context.Background(), &bs.Query{})
		if err != nil {
			env.Data.Gate = nil
			continue
		}
		hdone := make(chan int, 1)
		go func() { rows, _ := drainWatch(hres, 20*time.Second); hdone <- len(rows) }()
		ok := false
		select {
		case <-allPinned:
			ok = true
		case <-time.After(2 * time.Second):
		}
		wctx, wcancel := context.WithCancel(context.Background())
		wres, werr := eng.Query(wctx, &bs.Query{})
		if werr == nil {
			go func() {
				for wres.Next() {
				}
			}()
			time.Sleep(time.Duration(10+r.IntN(30)) * time.Millisecond) // W's workers are queued for a slot
			if r.Chance(0.5) {
				wcancel()
			} else {
				closeWatch(wres, 2*time.Second) // judged below, again under a watchdog
			}
			time.Sleep(30 * time.Millisecond)
		}
		// a third query started after W gave up, while H's reads are still pinned: a slot that W's cancelled
		// workers freed without holding it shows up as one store read too many
		xres, xerr := eng.Query(context.Background(), &bs.Query{})
		xdone := make(chan int, 1)
		if xerr == nil {
			go func() { rows, _ := drainWatch(xres, 20*time.Second); xdone <- len(rows) }()
			time.Sleep(40 * time.Millisecond)
		}
		maxReads := env.Data.MaxConcurrentReads()
		close(release)
		hrows := <-hdone
		var stuck []string
		if !closeWatch(hres, 5*time.Second) {
			stuck = append(stuck, "H (the query that held every slot)")
		}
		wcancel()
		if werr == nil && !closeWatch(wres, 5*time.Second) {
			stuck = append(stuck, "W (the cancelled waiter)")
		}
		if xerr == nil {
			<-xdone
			if !closeWatch(xres, 5*time.Second) {
				stuck = append(stuck, "X (a query started after the waiter gave up)")
			}
		}
		env.Data.Gate = nil
		replay := map[string]any{"MaxQueryConcurrency": mqc, "pinned": ok, "max_concurrent_reads": maxReads, "rows_of_H": hrows}
		if len(stuck) > 0 {
			c.r.Add(Finding{Kind: "violation", Check: "cancelled-waiter-blocks-others", Detail: fmt.Sprintf("after a query was cancelled while waiting for a slot (MaxQueryConcurrency=%d), Close of %s did not return within 5s: with a consumer that stopped reading while its workers waited for a slot, queries no longer complete", mqc, strings.Join(stuck, " and of ")), Replay: replay})
		}
		c.r.Case(ok, fmt.Sprint("cancelled-waiter", i, mqc))
		c.r.Hit("directed.cancelled-waiter." + b2s(ok))
		if int(maxReads) > mqc {
			c.r.Add(Finding{Kind: "violation", Check: "reads-exceed-cap", Detail: fmt.Sprintf("%d store reads were in progress at once with MaxQueryConcurrency=%d: a query cancelled while waiting for a slot read without one, or freed a slot it did not hold", maxReads, mqc), Replay: replay})
		}
	}
}

// dirCorruptFilterSection: one block's filter section of a four-block file is damaged on disk (the chunk
// read itself succeeds); a bloom query must still account for every block of that file, or for none.
func dirCorruptFilterSection(c *ctx, r Rng) {
	for i := 0; i < 6*c.scale; i++ {
		env, _ := dirPop(pick(r, []int{1, 4}), 1+r.IntN(2), 8, 4)
		files, _ := AllFiles(env.Meta)
		victim := files[r.IntN(len(files))]
		var withSection []bs.DataBlockMetadata
		for _, b := range victim.Metadata.DataBlocks {
			if b.BloomFilterSize > 0 {
				withSection = append(withSection, b)
			}
		}
		if len(withSection) == 0 {
			continue
		}
		vb := withSection[r.IntN(len(withSection))]
		data := append([]byte(nil), env.Data.Published()[string(victim.PointerBytes)]...)
		pos := vb.BloomFilterOffset + r.IntN(vb.BloomFilterSize)
		data[pos] ^= 0x20
		env.Data.Put(string(victim.PointerBytes), data)
		eng := freshOver(env, "never")
		res, err := eng.Query(context.Background(), bs.NewQuery().Token("needle").Build())
		if err != nil {
			continue
		}
		rows, ok := drainWatch(res, 10*time.Second)
		e := res.Err()
		st := res.Stats()
		res.Close()
		replay := map[string]any{"file": string(victim.PointerBytes), "blocks": len(victim.Metadata.DataBlocks), "damaged_block_offset": vb.RowDataOffset, "byte": pos, "err": errStr(e), "rows": len(rows)}
		c.r.Case(true, fmt.Sprint("corrupt-filter-section", i))
		c.r.Hit("directed.corrupt-filter-section")
		if !ok {
			c.r.Add(Finding{Kind: "violation", Check: "next-never-false", Detail: "Next did not return false within 10s", Replay: replay})
			continue
		}
		perFile := map[string]map[int]int{}
		for _, b := range st.BlockStats {
			if perFile[string(b.FilePointer)] == nil {
				perFile[string(b.FilePointer)] = map[int]int{}
			}
			perFile[string(b.FilePointer)][b.BlockOffset]++
		}
		for _, f := range files {
			listed := perFile[string(f.PointerBytes)]
			for off, n := range listed {
				if n > 1 {
					c.r.Add(Finding{Kind: "violation", Check: "block-listed-twice", Detail: fmt.Sprintf("block %s@%d listed %d times", f.PointerBytes, off, n), Replay: replay})
				}
			}
			if len(listed) != 0 && len(listed) != len(f.Metadata.DataBlocks) {
				c.r.Add(Finding{Kind: "violation", Check: "file-partially-listed", Detail: fmt.Sprintf("BlockStats lists %d of the %d blocks of %s (one filter section of the file is corrupt; Err=%s): a file's blocks are listed all or none", len(listed), len(f.Metadata.DataBlocks), f.PointerBytes, errStr(e)), Replay: replay})
			}
		}
		if st.BlocksProcessed+st.BlocksSkipped != len(st.BlockStats) {
			c.r.Add(Finding{Kind: "violation", Check: "totals-mismatch", Detail: fmt.Sprintf("BlocksProcessed %d + BlocksSkipped %d != %d listed blocks", st.BlocksProcessed, st.BlocksSkipped, len(st.BlockStats)), Replay: replay})
		}
	}
}

// dirBoundaryPrefilters: blocks whose recorded range starts / ends exactly on the value the prefilter cuts
// at (ts < v with Min == v, ts > v with Max == v, ...): ruled out by their metadata, they must not be read.
func dirBoundaryPrefilters(c *ctx, r Rng) {
	for i := 0; i < 4*c.scale; i++ {
		cfg := bs.DefaultBloomSearchEngineConfig()
		cfg.PartitionFunc = partitionFunc("p")
		cfg.MinMaxIndexes = []string{"k1"}
		cfg.MaxBufferedTime = time.Hour
		cfg.RowDataCompression = bs.CompressionNone
		cfg.MaxQueryConcurrency = pick(r, []int{1, 4})
		h := &History{Env: NewEnv(cfg), TM: tokModes[0], PartMode: "p", Keys: []string{"k1"}, Rows: map[int]*StoredRow{}}
		var bounds []int64
		for f := 0; f < 3+r.IntN(3); f++ {
			lo := int64(r.IntN(50)) * 10
			hi := lo + int64(r.IntN(4))*10
			switch r.Pick(6) {
			case 0:
				lo = math.MinInt64 // saturated below only: the upper bound stays exact
			case 1:
				hi = math.MaxInt64 // saturated above only
			}
			bounds = append(bounds, lo, hi, 1000, 100)
			var rows []map[string]any
			for _, v := range []int64{lo, hi} {
				h.nextID++
				rows = append(rows, map[string]any{"_id": h.nextID, "p": "a", "k1": v, "w": "needle"})
			}
			h.Env.IngestWait(rows)
		}
		h.Env.Stop()
		layout, err := h.Layout()
		if err != nil {
			continue
		}
		blockOf := map[int]string{}
		for _, f := range layout {
			for _, b := range f.Blocks {
				for _, id := range b.RowIDs {
					blockOf[id] = fmt.Sprint(f.Ptr, "@", b.Meta.RowDataOffset)
				}
			}
		}
		for qi := 0; qi < 24; qi++ {
			v := pick(r, bounds)
			if v == math.MinInt64 || v == math.MaxInt64 {
				v = 1000
			}
			cond := pick(r, []bs.NumericCondition{bs.NumericLessThan(v), bs.NumericGreaterThan(v), bs.NumericLessThanEqual(v - 1), bs.NumericGreaterThanEqual(v + 1), bs.NumericBetween(v+1, v+5), bs.NumericEquals(v), bs.NumericNotEquals(v),
				// value lists around a range without touching it / touching exactly one end; complements
				bs.NumericIn(v-1, v+31), bs.NumericIn(v-1, v+1), bs.NumericIn(v+1, v+9), bs.NumericIn(v-7, v, v+100), bs.NumericIn(), bs.NumericNotIn(v), bs.NumericNotIn(v, v+10),
				bs.NumericNotBetween(v, v+10), bs.NumericNotBetween(v+1, v+9), bs.NumericNotBetween(v-1, v+31), bs.NumericBetween(v+5, v+1)})
			q := bs.NewQuery().MatchPrefilter(bs.MinMax("k1", cond)).Build()
			if r.Chance(0.5) {
				q = bs.NewQuery().Token("needle").MatchPrefilter(bs.MinMax("k1", cond)).Build()
			}
			sc := qScenario{CancelAt: -1, CloseAt: -1, StallAt: -1, IterErr: -1, Engine: "never"}
			out := runQueryScenario(h, q, sc)
			replay := map[string]any{"query": q, "bounds": bounds, "rows": len(out.rows), "err": errStr(out.err1)}
			c.r.Case(true, fmt.Sprint("boundary-prefilter", i, qi, v))
			c.r.Hit("directed.boundary-prefilter")
			checkStatsAndReads(c, h, layout, q, sc, out, blockOf, "C24", replay)
		}
	}
}

// dirMixedSections: a merge output that mixes blocks with a filter section (rebuilt) and blocks without
// (copied verbatim from an external writer's file), the sectionless one first or last in the file. A query
// for a token no block holds must skip every sectioned block on its own filters and scan only the sectionless one.
func dirMixedSections(c *ctx, r Rng) {
	for i := 0; i < 16*c.scale; i++ { // the merge's block order varies from run to run: enough runs to see every order
		cfg := bs.DefaultBloomSearchEngineConfig()
		cfg.RowDataCompression = bs.CompressionNone
		cfg.MaxRowGroupRows = 2 + r.IntN(3)
		cfg.PartitionFunc = partitionFunc("p")
		cfg.MaxBufferedTime = time.Hour
		h := &History{Env: NewEnv(cfg), TM: tokModes[0], PartMode: "p", Rows: map[int]*StoredRow{}}
		mk := func(id int, pid, msg string) *StoredRow {
			row := map[string]any{"_id": id, "p": pid, "msg": msg}
			b, _ := mustMarshal(row)
			return &StoredRow{ID: id, Go: row, Bytes: b, PID: pid, Vals: map[string]NumCase{}}
		}
		lone := pick(r, []string{"zz", "aa", "mm"})
		h.nextID = 10
		h.writeExternal(map[string][]*StoredRow{"b": {mk(1, "b", "external row in b")}, lone: {mk(2, lone, "external row copied verbatim")}}, func() bool { return true }, c.r)
		h.Env.IngestWait([]map[string]any{{"_id": 3, "p": "b", "msg": "engine row one"}, {"_id": 4, "p": "c", "msg": "engine row two"}})
		if r.Chance(0.5) {
			h.Env.IngestWait([]map[string]any{{"_id": 5, "p": "c", "msg": "engine row three"}})
		}
		if _, err := h.Env.Eng.Merge(context.Background()); err != nil {
			h.Env.Stop()
			continue
		}
		h.Env.Stop()
		layout, err := h.Layout()
		if err != nil {
			continue
		}
		mixed := false
		blockOf := map[int]string{}
		for _, f := range layout {
			with, without := 0, 0
			for _, b := range f.Blocks {
				if b.Meta.BloomFilterSize > 0 {
					with++
				} else {
					without++
				}
				for _, id := range b.RowIDs {
					blockOf[id] = fmt.Sprint(f.Ptr, "@", b.Meta.RowDataOffset)
				}
			}
			if with > 0 && without > 0 {
				mixed = true
			}
		}
		type mq struct {
			tok  string
			part []string
		}
		for _, m := range []mq{{"absent", nil}, {"engine", nil}, {"verbatim", nil}, {"verbatim", []string{"b", lone}}, {"verbatim", []string{"c", lone}}, {"engine", []string{"c", lone}}} {
			// the partition prefilter varies which blocks are candidates, hence which one comes last
			tok := m.tok
			qb := bs.NewQuery().Token(tok)
			if m.part != nil {
				qb = qb.MatchPrefilter(bs.Partition(bs.PartitionIn(m.part...)))
			}
			q := qb.Build()
			sc := qScenario{CancelAt: -1, CloseAt: -1, StallAt: -1, IterErr: -1, Engine: "never"}
			out := runQueryScenario(h, q, sc)
			replay := map[string]any{"query_token": tok, "partitions": m.part, "lone_partition": lone, "mixed_file": mixed, "rows": len(out.rows), "err": errStr(out.err1), "ops": h.Ops}
			c.r.Case(mixed, fmt.Sprint("mixed-sections", i, tok, m.part, lone))
			c.r.Hit("directed.mixed-sections." + b2s(mixed))
			checkStatsAndReads(c, h, layout, q, sc, out, blockOf, "C24", replay)
		}
	}
}

// dirRegexGuard: regex trees that AND / OR conditions on several fields over files that carry only some of
// those fields. An AND needs every field: a file (block) whose field filter rules one out must not be opened
// (read); an OR needs any.
func dirRegexGuard(c *ctx, r Rng) {
	for i := 0; i < 3*c.scale; i++ {
		cfg := bs.DefaultBloomSearchEngineConfig()
		cfg.MaxBufferedTime = time.Hour
		cfg.RowDataCompression = bs.CompressionNone
		cfg.PartitionFunc = partitionFunc("p")
		h := &History{Env: NewEnv(cfg), TM: tokModes[0], PartMode: "p", Rows: map[int]*StoredRow{}}
		h.Env.IngestWait([]map[string]any{{"_id": 1, "p": "a", "level": "error"}, {"_id": 2, "p": "b", "level": "warn"}})
		h.Env.IngestWait([]map[string]any{{"_id": 3, "p": "a", "level": "error", "message": "disk full"}, {"_id": 4, "p": "b", "message": "only a message"}})
		h.Env.IngestWait([]map[string]any{{"_id": 5, "p": "a", "other": "x"}})
		h.Env.Stop()
		layout, err := h.Layout()
		if err != nil {
			continue
		}
		blockOf := map[int]string{}
		for _, f := range layout {
			for _, b := range f.Blocks {
				for _, id := range b.RowIDs {
					blockOf[id] = fmt.Sprint(f.Ptr, "@", b.Meta.RowDataOffset)
				}
			}
		}
		lv, ms, ot := bs.FieldRegex("level", "err"), bs.FieldRegex("message", "full"), bs.FieldRegex("other", ".")
		for _, rx := range []bs.RegexExpression{bs.RegexAnd(lv, ms), bs.RegexOr(lv, ms), bs.RegexAnd(lv, bs.RegexOr(ms, ot)), bs.RegexAnd(ot, ms), bs.RegexOr(bs.RegexAnd(lv, ms), ot)} {
			q := bs.NewQuery().MatchRegex(rx).Build()
			sc := qScenario{CancelAt: -1, CloseAt: -1, StallAt: -1, IterErr: -1, Engine: "never"}
			out := runQueryScenario(h, q, sc)
			replay := map[string]any{"regex": rx, "rows": len(out.rows), "err": errStr(out.err1)}
			c.r.Case(true, fmt.Sprint("regex-guard", i, regexStr(&rx)))
			c.r.Hit("directed.regex-guard")
			checkStatsAndReads(c, h, layout, q, sc, out, blockOf, "C24", replay)
		}
	}
}

// dirStalledSectionless: a file from an external writer (many blocks, none with a filter section) queried
// with a bloom condition by a consumer that never reads; a second query must still complete.
func dirStalledSectionless(c *ctx, r Rng) {
	for i := 0; i < 3*c.scale; i++ {
		cfg := bs.DefaultBloomSearchEngineConfig()
		cfg.PartitionFunc = partitionFunc("p")
		cfg.MaxBufferedTime = time.Hour
		cfg.RowDataCompression = bs.CompressionNone
		cfg.MaxQueryConcurrency = pick(r, []int{1, 2, 3})
		h := &History{Env: NewEnv(cfg), TM: tokModes[0], PartMode: "p", Rows: map[int]*StoredRow{}}
		parts := map[string][]*StoredRow{}
		nb := 24 + r.IntN(16)
		for k := 0; k < nb; k++ {
			pid := fmt.Sprintf("p%02d", k)
			row := map[string]any{"_id": k + 1, "p": pid, "w": "needle"}
			b, _ := mustMarshal(row)
			parts[pid] = []*StoredRow{{ID: k + 1, Go: row, Bytes: b, PID: pid, Vals: map[string]NumCase{}}}
		}
		h.nextID = 1000
		h.writeExternal(parts, func() bool { return true }, c.r)
		h.Env.Stop()
		eng := freshOver(h.Env, pick(r, []string{"never", "started"}))
		q := bs.NewQuery().Token("needle").Build()
		actx, acancel := context.WithCancel(context.Background())
		ares, err := eng.Query(actx, q)
		if err != nil {
			acancel()
			continue
		}
		time.Sleep(60 * time.Millisecond) // A's pipeline fills up behind its unread cursor
		bres, err := eng.Query(context.Background(), q)
		var rows []map[string]any
		ok := false
		if err == nil {
			rows, ok = drainWatch(bres, 5*time.Second)
		}
		replay := map[string]any{"blocks_without_filter_section": nb, "MaxQueryConcurrency": cfg.MaxQueryConcurrency, "second_query_rows": len(rows), "slots_in_use": eng.VerifSemaphoreInUse()}
		c.r.Case(true, fmt.Sprint("stalled-sectionless", i, nb, cfg.MaxQueryConcurrency))
		c.r.Hit("directed.stalled-sectionless")
		if !ok || len(rows) != nb {
			c.r.Add(Finding{Kind: "violation", Check: "stalled-query-starves-others", Detail: fmt.Sprintf("with one bloom-conditioned query stalled (its consumer never calls Next) over a %d-block file without filter sections, a second query returned %d of %d rows within 5s (completed=%v)", nb, len(rows), nb, ok), Replay: replay})
		}
		acancel()
		ares.Close()
		if err == nil {
			bres.Close()
		}
		eng.Stop(context.Background())
	}
}

// dirReversedSectionsReadFault: a file whose filter sections lie in the region in the reverse order of its row
// data (legal for an external writer), so that the filter pass needs several region reads; the k-th store
// read fails. Whatever fails, BlockStats lists all or none of the file's blocks, and every returned row's
// block is listed.
func dirReversedSectionsReadFault(c *ctx, r Rng) {
	// first in a process of its own: if the layout brings the engine down, report that instead of dying with it
	if ok, out := runChild("reversed-sections-query"); !ok {
		c.r.Add(Finding{Kind: "violation", Check: "query-crashes-process", Detail: "a bloom-conditioned query over a valid file whose filter sections are stored in reverse block order brought the process down: " + trunc(lastLines(out, 6), 600), Replay: map[string]any{"scenario": "harness child reversed-sections-query", "output": trunc(out, 3000)}})
		return
	}
	for i := 0; i < 3*c.scale; i++ {
		env, _ := dirPop(pick(r, []int{1, 4}), 1, 8, 4)
		md, buf, ok := reverseSections(env)
		if !ok {
			c.r.Note("reversed-sections: could not re-lay out the file")
			continue
		}
		blockOf := map[int]int{} // row id -> block offset
		for _, b := range md.DataBlocks {
			data, err := bs.ReadDataBlockRowData(bytes.NewReader(buf.Bytes()), &b)
			if err != nil {
				continue
			}
			for _, id := range idsInBytes(data) {
				blockOf[id] = b.RowDataOffset
			}
		}
		for k := 0; k <= 10; k++ {
			eng := freshOver(env, "never")
			env.Data.ClearFaults()
			if k > 0 {
				env.Data.SetFaults([]string{"read"}, k)
			}
			res, err := eng.Query(context.Background(), bs.NewQuery().Token("needle").Build())
			if err != nil {
				continue
			}
			rows, ok := drainWatch(res, 10*time.Second)
			e := res.Err()
			st := res.Stats()
			res.Close()
			env.Data.ClearFaults()
			replay := map[string]any{"blocks": len(md.DataBlocks), "failing_read": k, "err": errStr(e), "rows": len(rows)}
			c.r.Case(true, fmt.Sprint("reversed-sections", i, k))
			c.r.Hit("directed.reversed-sections")
			if !ok {
				c.r.Add(Finding{Kind: "violation", Check: "next-never-false", Detail: "Next did not return false within 10s", Replay: replay})
				continue
			}
			listed := map[int]int{}
			for _, b := range st.BlockStats {
				listed[b.BlockOffset]++
			}
			for off, n := range listed {
				if n > 1 {
					c.r.Add(Finding{Kind: "violation", Check: "block-listed-twice", Detail: fmt.Sprintf("BlockStats lists block @%d %d times (%d entries for the file's %d blocks; store read #%d failed; Err=%s)", off, n, len(st.BlockStats), len(md.DataBlocks), k, errStr(e)), Replay: replay})
					break
				}
			}
			if st.BlocksProcessed+st.BlocksSkipped != len(st.BlockStats) {
				c.r.Add(Finding{Kind: "violation", Check: "totals-vs-blocks", Detail: fmt.Sprintf("BlocksProcessed %d + BlocksSkipped %d differs from the %d BlockStats entries", st.BlocksProcessed, st.BlocksSkipped, len(st.BlockStats)), Replay: replay})
			}
			if len(listed) != 0 && len(listed) != len(md.DataBlocks) {
				c.r.Add(Finding{Kind: "violation", Check: "file-partially-listed", Detail: fmt.Sprintf("BlockStats lists %d of the file's %d blocks (store read #%d failed; Err=%s)", len(listed), len(md.DataBlocks), k, errStr(e)), Replay: replay})
			}
			for _, row := range rows {
				if id := rowID(row); listed[blockOf[id]] == 0 {
					c.r.Add(Finding{Kind: "violation", Check: "returned-row-block-unlisted", Detail: fmt.Sprintf("row %d was returned but its block @%d is not in BlockStats", id, blockOf[id]), Replay: replay})
					break
				}
			}
			if k == 0 && (e != nil || len(rows) != 8) {
				c.r.Add(Finding{Kind: "disagreement", Check: "reversed-sections-baseline", Detail: fmt.Sprintf("fault-free query over the re-laid-out file returned %d rows, err %v", len(rows), e), Replay: replay})
			}
		}
	}
}

// dirFaultAtEveryStoreCall (C20): for queries with and without bloom / regex conditions, the k-th OpenFile and
// the k-th Read fail, for every k the query reaches: the filter pass opens and reads files too. A failure that
// was reached in a query that was neither cancelled nor closed must be reported by Err, and Err must not change.
func dirFaultAtEveryStoreCall(c *ctx, r Rng) {
	env, total := dirPop(pick(r, []int{1, 4}), 3, 6, 2)
	queries := []*bs.Query{{}, bs.NewQuery().Token("needle").Build(), bs.NewQuery().Field("w").Build(), bs.NewQuery().FieldToken("w", "needle").Build(), bs.NewQuery().FieldRegex("w", "^need").Build()}
	for qi, q := range queries {
		for _, op := range []string{"open", "read"} {
			for k := 1; k <= 14; k++ {
				eng := freshOver(env, "never")
				env.Data.ResetLog()
				env.Data.SetFaults([]string{op}, k)
				res, err := eng.Query(context.Background(), q)
				if err != nil {
					env.Data.ClearFaults()
					continue
				}
				rows, ok := drainWatch(res, 10*time.Second)
				e1 := res.Err()
				res.Close()
				e2 := res.Err()
				hit := injectedFailure(env.Data.Log(), op)
				env.Data.ClearFaults()
				replay := map[string]any{"query_index": qi, "query": q, "failing_op": op, "failing_call": k, "reached": hit, "rows": len(rows), "stored_rows": total, "err": errStr(e1)}
				c.r.Case(hit, fmt.Sprint("fault-at-every-call", qi, op, k))
				c.r.Hit("directed.fault-at-every-call." + b2s(hit))
				if !ok {
					c.r.Add(Finding{Kind: "violation", Check: "next-never-false", Detail: "Next did not return false within 10s", Replay: replay})
					continue
				}
				if hit && e1 == nil {
					c.r.Add(Finding{Kind: "violation", Check: "failure-not-reported", Detail: fmt.Sprintf("%s call #%d of the query failed (injected), the query was neither cancelled nor closed early, %d of %d rows were returned, but Err() is nil", op, k, len(rows), total), Replay: replay})
				}
				if !hit && (e1 != nil || len(rows) != total) {
					c.r.Add(Finding{Kind: "violation", Check: "spurious-error", Detail: fmt.Sprintf("no store call failed, but Err() is %s and %d of %d rows were returned", errStr(e1), len(rows), total), Replay: replay})
				}
				if errStr(e1) != errStr(e2) {
					c.r.Add(Finding{Kind: "violation", Check: "terminal-state-changed", Detail: fmt.Sprintf("Err changed after Close: %q -> %q", errStr(e1), errStr(e2)), Replay: replay})
				}
			}
		}
	}
}

// dirRowFromAbandonedScan (C23): one block with far more matching rows than the cursor buffers; the consumer
// takes a few rows and then closes or cancels while the block's scan is parked on the full row buffer. Every
// block that contained a returned row must be listed as processed, with at least the returned rows counted.
func dirRowFromAbandonedScan(c *ctx, r Rng) {
	for i := 0; i < 6*c.scale; i++ {
		env, _ := dirPop(pick(r, []int{1, 2}), 1+i%2, 1500, 1)
		eng := freshOver(env, "never")
		ctx, cancel := context.WithCancel(context.Background())
		q := pick(r, []*bs.Query{{}, bs.NewQuery().Token("needle").Build()})
		res, err := eng.Query(ctx, q)
		if err != nil {
			cancel()
			continue
		}
		take := 1 + r.IntN(70)
		got := 0
		for got < take && res.Next() {
			got++
		}
		useCancel := i%3 == 2
		if useCancel {
			cancel()
			for res.Next() {
				got++
			}
		}
		res.Close()
		cancel()
		st := res.Stats()
		replay := map[string]any{"files": 1 + i%2, "rows_per_block": 1500, "rows_taken": got, "terminated_by": map[bool]string{true: "cancel", false: "Close"}[useCancel], "block_stats": len(st.BlockStats), "rows_matched": st.RowsMatched}
		c.r.Case(true, fmt.Sprint("abandoned-scan", i, take))
		c.r.Hit("directed.abandoned-scan")
		processed := 0
		for _, b := range st.BlockStats {
			if !b.BloomFilterSkipped {
				processed++
			}
		}
		if got > 0 && processed == 0 {
			c.r.Add(Finding{Kind: "violation", Check: "returned-row-block-unlisted", Detail: fmt.Sprintf("%d rows were returned before the query was ended, but Stats lists no processed block (BlockStats has %d entries, RowsMatched=%d)", got, len(st.BlockStats), st.RowsMatched), Replay: replay})
		}
	}
}

// dirPartialFilterSets (C24): the format's presence flags allow a filter set that carries only some of the three
// filters (a MetaStore keeping a slimmed catalogue, an external writer). The MetaStore's copy of every file
// loses one or two of its file-level filters; a condition may then be ruled out only by the filter of its own
// kind, and an absent filter rules out nothing - but the filters that ARE present still prune.
func dirPartialFilterSets(c *ctx, r Rng) {
	for variant := 0; variant < 6; variant++ {
		cfg := bs.DefaultBloomSearchEngineConfig()
		cfg.MaxBufferedTime = time.Hour
		cfg.RowDataCompression = bs.CompressionNone
		cfg.MaxQueryConcurrency = pick(r, []int{1, 4})
		h := &History{Env: NewEnv(cfg), TM: tokModes[0], Rows: map[int]*StoredRow{}}
		for f := 0; f < 4; f++ {
			var rows []map[string]any
			for j := 0; j < 3; j++ {
				h.nextID++
				rows = append(rows, map[string]any{"_id": h.nextID, "w": fmt.Sprintf("tok%d", f), fmt.Sprintf("only%d", f): "x"})
			}
			h.Env.IngestWait(rows)
		}
		h.Env.Stop()
		files, _ := AllFiles(h.Env.Meta)
		for _, f := range files {
			md := f.Metadata
			switch variant {
			case 0:
				md.BloomFilters.FieldTokenBloomFilter = nil
			case 1:
				md.BloomFilters.TokenBloomFilter = nil
			case 2:
				md.BloomFilters.FieldBloomFilter = nil
			case 3:
				md.BloomFilters.FieldBloomFilter, md.BloomFilters.FieldTokenBloomFilter = nil, nil
			case 4:
				md.BloomFilters.TokenBloomFilter, md.BloomFilters.FieldTokenBloomFilter = nil, nil
			case 5:
				md.BloomFilters = bs.BloomFilters{}
			}
			h.Env.Meta.Update(context.Background(), []bs.WriteOperation{{FileMetadata: &md, FilePointerBytes: f.PointerBytes}}, nil)
		}
		layout, err := h.Layout()
		if err != nil {
			continue
		}
		blockOf := map[int]string{}
		for _, f := range layout {
			for _, b := range f.Blocks {
				for _, id := range b.RowIDs {
					blockOf[id] = fmt.Sprint(f.Ptr, "@", b.Meta.RowDataOffset)
				}
			}
		}
		queries := []*bs.Query{
			bs.NewQuery().Token("tok1").Build(), bs.NewQuery().Field("only2").Build(), bs.NewQuery().FieldToken("w", "tok3").Build(),
			bs.NewQuery().Field("only0").Token("tok0").Build(), bs.NewQuery().Match(bs.Or(bs.Token("tok1"), bs.Token("tok2"))).Build(),
			bs.NewQuery().Match(bs.Token("absent")).Build(), bs.NewQuery().FieldRegex("only1", "^x").Build(),
		}
		for qi, q := range queries {
			sc := qScenario{CancelAt: -1, CloseAt: -1, StallAt: -1, IterErr: -1, Engine: "never"}
			out := runQueryScenario(h, q, sc)
			replay := map[string]any{"query": q, "file_level_filters_dropped_variant": variant, "rows": len(out.rows), "err": errStr(out.err1)}
			c.r.Case(true, fmt.Sprint("partial-filter-set", variant, qi))
			c.r.Hit("directed.partial-filter-set")
			checkStatsAndReads(c, h, layout, q, sc, out, blockOf, "C24", replay)
		}
	}
}

// dirTerminalWhileReadInFlight (C21): a worker is inside a DataStore read (parked by the store, released 300 ms
// later) when the query is ended in each of the documented ways: cancel then Close without another Next; Close
// from another goroutine just before Next; cancel then Next; plain Close. At the instant Close returns / Next
// returns false, every handle the query opened has been closed - the call waits for the read to come back.
func dirTerminalWhileReadInFlight(c *ctx, r Rng) {
	names := []string{"cancel, then Close without another Next", "Close from another goroutine, then Next", "cancel, then Next", "Close"}
	for i := 0; i < 8*c.scale; i++ {
		variant := i % 4
		env, _ := dirPop(pick(r, []int{1, 2}), 3, 3, 1)
		eng := freshOver(env, "never")
		k := 1 + r.IntN(3)
		pk := newParker("read", k)
		env.Data.ResetLog()
		env.Data.Gate = func(op, file string) { pk.hit(op) }
		ctx, cancel := context.WithCancel(context.Background())
		q := pick(r, []*bs.Query{{}, bs.NewQuery().Token("needle").Build()})
		res, err := eng.Query(ctx, q)
		if err != nil {
			cancel()
			env.Data.Gate = nil
			continue
		}
		parked := false
		select {
		case <-pk.parked:
			parked = true
		case <-time.After(500 * time.Millisecond):
			pk.disarm()
		}
		if parked {
			go func() { time.Sleep(300 * time.Millisecond); close(pk.release) }()
		}
		openAtReturn := int64(-1)
		done := make(chan struct{})
		go func() {
			defer close(done)
			switch variant {
			case 0:
				cancel()
				res.Close()
			case 1:
				go res.Close()
				time.Sleep(20 * time.Millisecond)
				for res.Next() {
				}
			case 2:
				cancel()
				for res.Next() {
				}
			case 3:
				res.Close()
			}
			openAtReturn = env.Data.OpenHandles()
		}()
		ok := true
		select {
		case <-done:
		case <-time.After(10 * time.Second):
			ok = false
		}
		replay := map[string]any{"ended_by": names[variant], "parked_read": k, "parked": parked, "open_handles_at_return": openAtReturn}
		c.r.Case(parked, fmt.Sprint("terminal-read-in-flight", i, variant))
		c.r.Hit("directed.terminal-read-in-flight." + b2s(parked))
		if !ok {
			c.r.Add(Finding{Kind: "violation", Check: "next-never-false", Detail: fmt.Sprintf("the query did not reach its terminal state within 10s (%s)", names[variant]), Replay: replay})
		} else if parked && openAtReturn != 0 {
			c.r.Add(Finding{Kind: "violation", Check: "handles-open-at-terminal", Detail: fmt.Sprintf("%s returned while %d DataStore handles of the query were still open (a read was in flight inside the store)", names[variant], openAtReturn), Replay: replay})
		}
		res.Close()
		cancel()
		env.Data.Gate = nil
		time.Sleep(2 * time.Millisecond)
	}
}

// dirStalledBloomManyFiles (C22): a bloom-conditioned query whose consumer never calls Next, over many
// engine-written files with few surviving blocks each (1, 3 or 12): whatever stage of its pipeline backs up,
// it parks holding no slot - a second query over the same store completes.
func dirStalledBloomManyFiles(c *ctx, r Rng) {
	for i := 0; i < 3*c.scale; i++ {
		per := []int{1, 3, 12}[i%3]
		nfiles := 60
		if per == 12 {
			nfiles = 12
		}
		env, total := dirPop(pick(r, []int{1, 2, 3}), nfiles, per, per)
		eng := freshOver(env, pick(r, []string{"never", "started"}))
		q := bs.NewQuery().Token("needle").Build()
		actx, acancel := context.WithCancel(context.Background())
		ares, err := eng.Query(actx, q)
		if err != nil {
			acancel()
			continue
		}
		// wait until A's pipeline has backed up: no store call for 150 ms
		last, stable := -1, 0
		for stable < 15 {
			time.Sleep(10 * time.Millisecond)
			n := len(env.Data.Log())
			if n == last {
				stable++
			} else {
				stable, last = 0, n
			}
		}
		bres, err := eng.Query(context.Background(), q)
		var rows []map[string]any
		ok := false
		if err == nil {
			rows, ok = drainWatch(bres, 8*time.Second)
		}
		replay := map[string]any{"files": nfiles, "blocks_per_file": per, "MaxQueryConcurrency": env.Cfg.MaxQueryConcurrency, "second_query_rows": len(rows), "slots_in_use": eng.VerifSemaphoreInUse()}
		c.r.Case(true, fmt.Sprint("stalled-bloom-many-files", i, per, env.Cfg.MaxQueryConcurrency))
		c.r.Hit("directed.stalled-bloom-many-files")
		if !ok || len(rows) != total {
			c.r.Add(Finding{Kind: "violation", Check: "stalled-query-starves-others", Detail: fmt.Sprintf("with one bloom-conditioned query stalled (its consumer never calls Next) over %d files of %d blocks, a second query returned %d of %d rows within 8s (completed=%v, MaxQueryConcurrency=%d)", nfiles, per, len(rows), total, ok, env.Cfg.MaxQueryConcurrency), Replay: replay})
		}
		acancel()
		ares.Close()
		if err == nil {
			bres.Close()
		}
		eng.Stop(context.Background())
	}
}

// dirOpensCountAsIO (C22): two and three concurrent bloom-conditioned queries over a slow store; OpenFile calls
// are DataStore I/O like reads, and the store's gauge of calls in progress (opens and reads) never exceeds
// MaxQueryConcurrency.
func dirOpensCountAsIO(c *ctx, r Rng) {
	for i := 0; i < 3*c.scale; i++ {
		capN := 1 + i%2
		env, total := dirPop(capN, 6, 2, 2)
		eng := freshOver(env, "never")
		env.Data.ReadDelay = 2 * time.Millisecond
		env.Data.OpenDelay = 4 * time.Millisecond
		env.Data.ResetReadGauge()
		var wg sync.WaitGroup
		nq := 3
		got := make([]int, nq)
		for k := 0; k < nq; k++ {
			wg.Add(1)
			go func(k int) {
				defer wg.Done()
				res, err := eng.Query(context.Background(), bs.NewQuery().Token("needle").Build())
				if err != nil {
					return
				}
				rows, _ := drainWatch(res, 20*time.Second)
				got[k] = len(rows)
				res.Close()
			}(k)
		}
		wg.Wait()
		env.Data.ReadDelay, env.Data.OpenDelay = 0, 0
		mx := env.Data.MaxConcurrentReads()
		c.r.Case(true, fmt.Sprint("opens-count-as-io", i, capN))
		c.r.Hit("directed.opens-count-as-io")
		if mx > int64(capN) {
			c.r.Add(Finding{Kind: "violation", Check: "reads-exceed-cap", Detail: fmt.Sprintf("%d DataStore calls of queries (OpenFile and Read) were in progress at once with MaxQueryConcurrency=%d (three concurrent bloom-conditioned queries, slow store)", mx, capN), Replay: map[string]any{"MaxQueryConcurrency": capN, "queries": nq, "rows": got, "stored": total}})
		}
	}
}

// reverseSections re-lays out the (single) file of env with its filter sections in the reverse order of its row
// data blocks - legal for an external writer using WriteFileFooter - and installs it in both stores.
func reverseSections(env *Env) (bs.FileMetadata, *bytes.Buffer, bool) {
	files, _ := AllFiles(env.Meta)
	victim := files[0]
	orig := env.Data.Published()[string(victim.PointerBytes)]
	md := victim.Metadata
	md.DataBlocks = append([]bs.DataBlockMetadata(nil), md.DataBlocks...)
	ro := md.BlockFilterRegionOffset
	var region []byte
	for j := len(md.DataBlocks) - 1; j >= 0; j-- {
		b := &md.DataBlocks[j]
		if b.BloomFilterSize == 0 {
			continue
		}
		sec := orig[b.BloomFilterOffset : b.BloomFilterOffset+b.BloomFilterSize]
		b.BloomFilterOffset = ro + len(region)
		region = append(region, sec...)
	}
	var buf bytes.Buffer
	if len(region) != md.BlockFilterRegionSize {
		return md, &buf, false
	}
	buf.Write(orig[:ro])
	buf.Write(region)
	if err := bs.WriteFileFooter(&buf, &md); err != nil {
		return md, &buf, false
	}
	env.Data.Put(string(victim.PointerBytes), buf.Bytes())
	env.Meta.Update(context.Background(), []bs.WriteOperation{{FileMetadata: &md, FilePointerBytes: victim.PointerBytes}}, nil)
	return md, &buf, true
}

// childScenario runs in a process of its own (see main.go) and prints "OK ..." when the scenario ends normally.
func childScenario(name string) {
	switch name {
	case "reversed-sections-query":
		for _, mqc := range []int{1, 4} {
			env, total := dirPop(mqc, 1, 9, 3)
			if _, _, ok := reverseSections(env); !ok {
				fmt.Println("OK (layout not reversible)")
				return
			}
			eng := freshOver(env, "never")
			for _, q := range []*bs.Query{bs.NewQuery().Token("needle").Build(), bs.NewQuery().Field("w").Build(), bs.NewQuery().Token("absent").Build()} {
				res, err := eng.Query(context.Background(), q)
				if err != nil {
					continue
				}
				rows, _ := drainWatch(res, 10*time.Second)
				e := res.Err()
				res.Close()
				fmt.Printf("OK rows=%d of %d err=%v\n", len(rows), total, e)
			}
		}
	default:
		fmt.Println("unknown child scenario", name)
		os.Exit(2)
	}
}

// runChild runs a child scenario; ok=false when the child process died (panic, fatal error, timeout).
func runChild(name string) (ok bool, output string) {
	ctx, cancel := context.WithTimeout(context.Background(), 60*time.Second)
	defer cancel()
	out, err := exec.CommandContext(ctx, os.Args[0], "child", name).CombinedOutput()
	return err == nil, string(out)
}

// dirCancelCause (C20): the Query context is one of the standard library's cause-carrying contexts
// (WithCancelCause cancelled with a custom cause, WithTimeoutCause expiring). Cancellation is still reported as
// cancellation: Err satisfies errors.Is(context.Canceled) resp. errors.Is(context.DeadlineExceeded).
func dirCancelCause(c *ctx, r Rng) {
	cause := errors.New("operator pressed stop")
	for i := 0; i < 6; i++ {
		env, _ := dirPop(pick(r, []int{1, 2}), 4, 3, 1)
		eng := freshOver(env, "never")
		var ctx context.Context
		var trigger func()
		want := context.Canceled
		if i%2 == 0 {
			cctx, cancel := context.WithCancelCause(context.Background())
			ctx, trigger = cctx, func() { cancel(cause) }
		} else {
			tctx, cancel := context.WithTimeoutCause(context.Background(), 30*time.Millisecond, cause)
			defer cancel()
			ctx, trigger = tctx, func() { <-tctx.Done() }
			want = context.DeadlineExceeded
		}
		q := pick(r, []*bs.Query{{}, bs.NewQuery().Token("needle").Build()})
		res, err := eng.Query(ctx, q)
		if err != nil {
			continue
		}
		took := 0
		for took < i/2 && res.Next() {
			took++
		}
		trigger()
		_, ok := drainWatch(res, 10*time.Second)
		e1 := res.Err()
		res.Close()
		e2 := res.Err()
		replay := map[string]any{"context": map[bool]string{true: "WithCancelCause(custom cause)", false: "WithTimeoutCause(30ms, custom cause)"}[i%2 == 0], "rows_before_cancel": took, "err": errStr(e1)}
		c.r.Case(true, fmt.Sprint("cancel-cause", i))
		c.r.Hit("directed.cancel-cause")
		if !ok {
			c.r.Add(Finding{Kind: "violation", Check: "next-never-false", Detail: "Next did not return false within 10s after the context ended", Replay: replay})
			continue
		}
		if e1 == nil || !errors.Is(e1, want) {
			c.r.Add(Finding{Kind: "violation", Check: "canceled-query-not-reported", Detail: fmt.Sprintf("the Query context (%s) ended before the final Next, ctx.Err() is %v, but Err() = %q does not report it (errors.Is is false)", replay["context"], want, errStr(e1)), Replay: replay})
		}
		if errStr(e1) != errStr(e2) {
			c.r.Add(Finding{Kind: "violation", Check: "terminal-state-changed", Detail: fmt.Sprintf("Err changed after Close: %q -> %q", errStr(e1), errStr(e2)), Replay: replay})
		}
	}
}

// dirOpenInterruptedOnlyByCtx (C20): a DataStore whose OpenFile blocks until the context it was given ends (a
// remote store). Close, and cancellation followed by Next, still reach the terminal state: the engine hands its
// store calls a context that ends with the query.
func dirOpenInterruptedOnlyByCtx(c *ctx, r Rng) {
	for i := 0; i < 4; i++ {
		env, _ := dirPop(pick(r, []int{1, 2}), 3, 3, 1)
		eng := freshOver(env, "never")
		env.Data.OpenRelease = make(chan struct{})
		env.Data.OpenWaitsForCtx.Store(true)
		ctx, cancel := context.WithCancel(context.Background())
		q := pick(r, []*bs.Query{{}, bs.NewQuery().Token("needle").Build()})
		res, err := eng.Query(ctx, q)
		if err != nil {
			cancel()
			env.Data.OpenWaitsForCtx.Store(false)
			continue
		}
		// wait until a worker is inside OpenFile
		for w := 0; w < 200 && env.Data.OpensWaiting.Load() == 0; w++ {
			time.Sleep(5 * time.Millisecond)
		}
		waiting := env.Data.OpensWaiting.Load() > 0
		done := make(chan struct{})
		go func() {
			defer close(done)
			if i%2 == 0 {
				res.Close()
			} else {
				cancel()
				for res.Next() {
				}
			}
		}()
		how := map[bool]string{true: "Close", false: "cancel, then Next"}[i%2 == 0]
		replay := map[string]any{"ended_by": how, "worker_inside_OpenFile": waiting}
		c.r.Case(waiting, fmt.Sprint("open-interrupted-by-ctx", i))
		c.r.Hit("directed.open-interrupted-by-ctx." + b2s(waiting))
		select {
		case <-done:
		case <-time.After(5 * time.Second):
			c.r.Add(Finding{Kind: "violation", Check: "close-hangs", Detail: fmt.Sprintf("%s did not reach the terminal state within 5s while a worker was inside an OpenFile that returns only when its context ends: the store call was given a context that does not end with the query", how), Replay: replay})
			close(env.Data.OpenRelease) // let the store give up so that the run can go on
			select {
			case <-done:
			case <-time.After(5 * time.Second):
			}
		}
		env.Data.OpenWaitsForCtx.Store(false)
		res.Close()
		cancel()
	}
}
