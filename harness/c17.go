package main

// Layout-level checks over the files real histories produce: C17 (files describe themselves),
// C18 (indexes cover their data), C26 (filters are sized from measured distinct counts).

import (
	"bytes"
	"context"
	"encoding/binary"
	"fmt"
	"hash/crc32"
	"math"
	"sort"
	"strings"
	"time"

	"github.com/bits-and-blooms/bloom/v3"
	bs "github.com/danthegoodman1/bloomsearch"
)

func init() {
	props["C17"] = func(c *ctx) { runLayout(c, "C17") }
	props["C18"] = func(c *ctx) { runLayout(c, "C18") }
	props["C26"] = func(c *ctx) { runLayout(c, "C26") }
}

var crcTable = crc32.MakeTable(crc32.Castagnoli)

// modelEntries asks the Lean model for a row's entries under the history's tokenizer.
func modelEntries(c *ctx, tm tokMode, rb []byte) (f, t, ft []string) {
	var jt toks
	if err := jsonTok(&jt, rb); err != nil {
		fatal("stored row does not parse: %v", err)
	}
	var et toks
	et.add("ent")
	tokTableTok(&et, tm, leafTexts(rb))
	et.add(jt.String())
	resp := strings.Fields(c.m.Ask(et.String()))
	i := 0
	read := func(tag string) []string {
		if i >= len(resp) || resp[i] != tag {
			fatal("bad ent response %v", resp)
		}
		i++
		n := 0
		fmt.Sscan(resp[i], &n)
		i++
		out := make([]string, n)
		for k := 0; k < n; k++ {
			out[k] = unhx(resp[i])
			i++
		}
		return out
	}
	return read("F"), read("T"), read("FT")
}

type entrySets struct{ f, t, ft map[string]struct{} }

func newEntrySets() *entrySets {
	return &entrySets{map[string]struct{}{}, map[string]struct{}{}, map[string]struct{}{}}
}
func (e *entrySets) add(f, t, ft []string) {
	for _, x := range f {
		e.f[x] = struct{}{}
	}
	for _, x := range t {
		e.t[x] = struct{}{}
	}
	for _, x := range ft {
		e.ft[x] = struct{}{}
	}
}
func (e *entrySets) union(o *entrySets) {
	for x := range o.f {
		e.f[x] = struct{}{}
	}
	for x := range o.t {
		e.t[x] = struct{}{}
	}
	for x := range o.ft {
		e.ft[x] = struct{}{}
	}
}

func runLayout(c *ctx, which string) {
	c.r.Rule = "files written by flush and merge in random histories (all compressions, tokenizers, partition functions, minmax key sets, tiny limits) are read back through the public helpers; " +
		"C17: layout offsets vs the Lean layout model, row count / uncompressed size / CRC32C / entry counts recomputed from the row data with the Lean entries; " +
		"C18: every Lean-model entry of every row probed in the block and file filters, minmax keys/ranges and partition IDs vs the model; " +
		"C26: (m,k) of every written filter vs EstimateParameters(max(|S|,1), p) with |S| from the Lean entries (+ measured false-positive rate in the thorough tier). " +
		"Non-trivial = a block with at least one row; distinct by (history, file, block offset)"
	r := NewRng(c.seed, 170)
	hist := 16 * c.scale
	for hi := 0; hi < hist; hi++ {
		h := NewHistory(r)
		h.Run(r, 8+r.IntN(10), c.r)
		layout, err := h.Layout()
		if err != nil {
			c.r.Add(Finding{Kind: "violation", Check: "read-back", Detail: "a written file does not read back through the public helpers: " + err.Error(), Replay: map[string]any{"ops": h.Ops}})
			h.Env.Stop()
			continue
		}
		p := h.Env.Cfg.BloomFalsePositiveRate
		seen := map[int]int{}
		for _, f := range layout {
			engineWritten := !strings.HasPrefix(f.Ptr, "ext")
			fileEntries := newEntrySets()
			// C17: parse footer from bytes and compare with what the metastore holds
			meta, size, err := bs.ReadFileMetadata(bytes.NewReader(f.Bytes))
			if err != nil {
				c.r.Add(Finding{Kind: "violation", Check: "ReadFileMetadata", Detail: "written file does not parse: " + err.Error(), Replay: map[string]any{"ops": h.Ops, "file": f.Ptr}})
				continue
			}
			if which == "C17" && engineWritten {
				if size != int64(len(f.Bytes)) {
					c.r.Add(Finding{Kind: "violation", Check: "file-size", Detail: "ReadFileMetadata size differs from bytes written", Replay: map[string]any{"file": f.Ptr}})
				}
				if fmt.Sprint(stripFilters(*meta)) != fmt.Sprint(stripFilters(f.Meta)) {
					c.r.Add(Finding{Kind: "violation", Check: "footer-vs-metastore", Detail: "metadata parsed from the file's footer differs from the metadata committed to the MetaStore",
						Replay: map[string]any{"ops": h.Ops, "file": f.Ptr, "footer": fmt.Sprint(stripFilters(*meta)), "metastore": fmt.Sprint(stripFilters(f.Meta))}})
				}
				// layout vs model: blocks in metadata order
				t := (&toks{}).add("lay").n(len(f.Blocks))
				for _, b := range f.Blocks {
					t.n(b.Meta.RowDataSize).n(b.Meta.BloomFilterSize)
				}
				want := c.m.Ask(t.String())
				var got toks
				got.n(meta.BlockFilterRegionOffset).n(meta.BlockFilterRegionSize)
				for _, b := range meta.DataBlocks {
					got.n(b.RowDataOffset).n(b.BloomFilterOffset)
				}
				got.add("valid")
				if got.String() != want {
					c.r.Add(Finding{Kind: "violation", Check: "layout", Detail: "offsets in metadata are not the contiguous layout (row data from 0, then the filter region with sections in block order)",
						Replay: map[string]any{"ops": h.Ops, "file": f.Ptr, "impl": got.String(), "model": want}})
				}
			}
			for _, b := range f.Blocks {
				c.r.Case(len(b.Rows) > 0, fmt.Sprint(hi, f.Ptr, b.Meta.RowDataOffset))
				blockEntries := newEntrySets()
				uncompressed := 0
				for i, rb := range b.Rows {
					id := b.RowIDs[i]
					seen[id]++
					uncompressed += 4 + len(rb)
					ef, et, eft := modelEntries(c, h.TM, rb)
					blockEntries.add(ef, et, eft)
					sr := h.Rows[id]
					if sr == nil {
						c.r.Add(Finding{Kind: "violation", Check: "phantom-row", Detail: fmt.Sprintf("stored row %d was never acknowledged", id), Replay: map[string]any{"ops": h.Ops}})
						continue
					}
					if which == "C17" && !bytes.Equal(rb, sr.Bytes) {
						c.r.Add(Finding{Kind: "violation", Check: "row-bytes", Detail: fmt.Sprintf("row %d read back differs from the marshaled row that was ingested", id), Replay: map[string]any{"ops": h.Ops, "stored": string(rb), "ingested": string(sr.Bytes)}})
					}
					if which == "C18" {
						// partition
						if b.Meta.PartitionID != sr.PID {
							c.r.Add(Finding{Kind: "violation", Check: "partition-id", Detail: fmt.Sprintf("row %d has partition %q but sits in a block with PartitionID %q", id, sr.PID, b.Meta.PartitionID), Replay: map[string]any{"ops": h.Ops}})
						}
						// minmax cover
						for k, nc := range sr.Vals {
							mm, ok := b.Meta.MinMaxIndexes[k]
							want := strings.Fields(c.m.Ask("range " + nc.Tok))
							var lo, hi int64
							fmt.Sscan(want[0], &lo)
							fmt.Sscan(want[1], &hi)
							if !ok || mm.Min > lo || mm.Max < hi {
								c.r.Add(Finding{Kind: "violation", Check: "minmax-cover", Detail: fmt.Sprintf("row %d value %s under %q (model range [%d,%d]) is not covered by its block's range %v (present=%v)", id, describeNum(nc), k, lo, hi, mm, ok),
									Replay: map[string]any{"ops": h.Ops, "file": f.Ptr}})
							}
						}
						// filters contain every entry
						probe := func(fl *bloom.BloomFilter, entries []string, level, kind string) {
							if fl == nil {
								return
							}
							for _, e := range entries {
								if !fl.TestString(e) {
									c.r.Add(Finding{Kind: "violation", Check: level + "-filter-missing-entry", Detail: fmt.Sprintf("%s %s filter does not contain entry %q of row %d", level, kind, e, id),
										Replay: map[string]any{"ops": h.Ops, "file": f.Ptr, "row": string(rb), "tokenizer": h.TM.name}})
									return
								}
							}
						}
						probe(b.Filters.FieldBloomFilter, ef, "block", "field")
						probe(b.Filters.TokenBloomFilter, et, "block", "token")
						probe(b.Filters.FieldTokenBloomFilter, eft, "block", "field-token")
						probe(meta.BloomFilters.FieldBloomFilter, ef, "file", "field")
						probe(meta.BloomFilters.TokenBloomFilter, et, "file", "token")
						probe(meta.BloomFilters.FieldTokenBloomFilter, eft, "file", "field-token")
					}
				}
				fileEntries.union(blockEntries)
				if !engineWritten || h.allExternal(b.RowIDs) {
					// blocks an external writer produced (also when a merge copied them verbatim)
					// carry that writer's metadata; C17/C26 speak about what flush and merge build
					c.r.Hit("block.external-or-copied-external")
					continue
				}
				if which == "C18" {
					// keys exact
					wantKeys := map[string]bool{}
					for _, id := range b.RowIDs {
						if sr := h.Rows[id]; sr != nil {
							for k := range sr.Vals {
								wantKeys[k] = true
							}
						}
					}
					for k := range b.Meta.MinMaxIndexes {
						if !wantKeys[k] {
							c.r.Add(Finding{Kind: "violation", Check: "minmax-keys", Detail: fmt.Sprintf("block lists minmax key %q that none of its rows provides as a number", k), Replay: map[string]any{"ops": h.Ops, "file": f.Ptr}})
						}
					}
					for k := range wantKeys {
						if _, ok := b.Meta.MinMaxIndexes[k]; !ok {
							c.r.Add(Finding{Kind: "violation", Check: "minmax-keys", Detail: fmt.Sprintf("block does not list minmax key %q although a row provides it", k), Replay: map[string]any{"ops": h.Ops, "file": f.Ptr}})
						}
					}
				}
				if which == "C17" {
					bm := b.Meta
					comp := f.Bytes[bm.RowDataOffset : bm.RowDataOffset+bm.RowDataSize]
					if bm.Rows != len(b.Rows) {
						c.r.Add(Finding{Kind: "violation", Check: "row-count", Detail: fmt.Sprintf("metadata Rows=%d but the block holds %d rows", bm.Rows, len(b.Rows)), Replay: map[string]any{"ops": h.Ops, "file": f.Ptr}})
					}
					if bm.UncompressedSize != uncompressed {
						c.r.Add(Finding{Kind: "violation", Check: "uncompressed-size", Detail: fmt.Sprintf("metadata UncompressedSize=%d but rows occupy %d", bm.UncompressedSize, uncompressed), Replay: map[string]any{"ops": h.Ops, "file": f.Ptr}})
					}
					if !bm.HasRowDataHash || bm.RowDataHash != crc32.Checksum(comp, crcTable) {
						c.r.Add(Finding{Kind: "violation", Check: "row-data-hash", Detail: "metadata CRC32C does not match the block's row data bytes", Replay: map[string]any{"ops": h.Ops, "file": f.Ptr}})
					}
					// an engine-written block names its compression explicitly, and it is one some engine of this
					// history was configured with (that the bytes really decode under it is the read-back check)
					if h.CompSeen != nil && !h.CompSeen[bm.Compression] {
						c.r.Add(Finding{Kind: "violation", Check: "compression", Detail: fmt.Sprintf("block records compression %q; the engines of this history were configured with %v", bm.Compression, h.CompSeen), Replay: map[string]any{"ops": h.Ops, "file": f.Ptr}})
					}
					cnt := bs.BloomEntryCounts{Fields: len(blockEntries.f), Tokens: len(blockEntries.t), FieldTokens: len(blockEntries.ft)}
					if bm.BloomEntryCounts != cnt {
						c.r.Add(Finding{Kind: "violation", Check: "entry-counts", Detail: fmt.Sprintf("block BloomEntryCounts %+v, distinct entries recomputed from its rows (Lean) %+v", bm.BloomEntryCounts, cnt), Replay: map[string]any{"ops": h.Ops, "file": f.Ptr}})
					}
				}
				if which == "C26" {
					// a block is sized for the rate it records, and that is a rate some engine of the history was
					// configured with (blocks written before a reconfiguration keep theirs; rebuilt ones get the new)
					bp := b.Meta.BloomFalsePositiveRate
					if h.RateSeen != nil && !h.RateSeen[bp] {
						c.r.Add(Finding{Kind: "violation", Check: "sizing", Detail: fmt.Sprintf("block records false-positive rate %g; the engines of this history were configured with %v", bp, h.RateSeen), Replay: map[string]any{"ops": h.Ops, "file": f.Ptr}})
						bp = p
					}
					checkSizing(c, b.Filters.FieldBloomFilter, len(blockEntries.f), bp, "block field", f.Ptr, h)
					checkSizing(c, b.Filters.TokenBloomFilter, len(blockEntries.t), bp, "block token", f.Ptr, h)
					checkSizing(c, b.Filters.FieldTokenBloomFilter, len(blockEntries.ft), bp, "block field-token", f.Ptr, h)
				}
			}
			if engineWritten && which == "C17" {
				cnt := bs.BloomEntryCounts{Fields: len(fileEntries.f), Tokens: len(fileEntries.t), FieldTokens: len(fileEntries.ft)}
				if meta.BloomEntryCounts != cnt {
					c.r.Add(Finding{Kind: "violation", Check: "file-entry-counts", Detail: fmt.Sprintf("file BloomEntryCounts %+v, distinct entries recomputed from its rows (Lean) %+v", meta.BloomEntryCounts, cnt), Replay: map[string]any{"ops": h.Ops, "file": f.Ptr}})
				}
			}
			if engineWritten && which == "C26" {
				if h.RateSeen != nil && h.RateSeen[meta.BloomFalsePositiveRate] {
					p = meta.BloomFalsePositiveRate
				}
				checkSizing(c, meta.BloomFilters.FieldBloomFilter, len(fileEntries.f), p, "file field", f.Ptr, h)
				checkSizing(c, meta.BloomFilters.TokenBloomFilter, len(fileEntries.t), p, "file token", f.Ptr, h)
				checkSizing(c, meta.BloomFilters.FieldTokenBloomFilter, len(fileEntries.ft), p, "file field-token", f.Ptr, h)
			}
		}
		if which == "C17" {
			for id := range h.Rows {
				if seen[id] != 1 {
					c.r.Add(Finding{Kind: "violation", Check: "rows-read-back", Detail: fmt.Sprintf("acknowledged row %d is read back %d times", id, seen[id]), Replay: map[string]any{"ops": h.Ops}})
				}
			}
		}
		if hi < 2 {
			c.r.Sample(map[string]any{"history": h.Ops, "files": len(layout)})
		}
		h.Env.Stop()
	}
	if which == "C26" {
		c26Volume(c)
		c26ReconfiguredMerge(c)
	}
	if which == "C18" {
		c18SharedVocabulary(c)
		c18SaturatedRanges(c)
	}
	if which == "C17" {
		c17CopiedExternal(c)
		c17EntryLess(c)
		c17LargeBlocks(c)
		c17TransientWriteFaults(c)
		c12MultiBatchBlocks(c) // the recorded row count of blocks buffered from several batches
	}
}

func stripFilters(m bs.FileMetadata) bs.FileMetadata {
	m.BloomFilters = bs.BloomFilters{}
	blocks := append([]bs.DataBlockMetadata(nil), m.DataBlocks...)
	sort.Slice(blocks, func(i, j int) bool { return blocks[i].RowDataOffset < blocks[j].RowDataOffset })
	m.DataBlocks = blocks
	return m
}

func checkSizing(c *ctx, fl *bloom.BloomFilter, n int, p float64, what, file string, h *History) {
	if fl == nil {
		c.r.Add(Finding{Kind: "violation", Check: "sizing", Detail: what + " filter is absent in an engine-written file", Replay: map[string]any{"ops": h.Ops, "file": file}})
		return
	}
	m, k := bloom.EstimateParameters(uint(max(n, 1)), p)
	c.r.Hit("sizing.checked")
	if fl.Cap() != m || fl.K() != k {
		c.r.Add(Finding{Kind: "violation", Check: "sizing", Detail: fmt.Sprintf("%s filter has (m=%d,k=%d); sized for its %d distinct entries at p=%g it would be (m=%d,k=%d)", what, fl.Cap(), fl.K(), n, p, m, k),
			Replay: map[string]any{"ops": h.Ops, "file": file, "distinct_entries": n, "rate": p}})
	}
}

// c26Volume: sizing and measured false-positive rate across volumes (one block, distinct tokens).
func c26Volume(c *ctx) {
	r := NewRng(c.seed, 260)
	vols := []int{1, 2, 10, 100, 1000, 5000}
	rates := []float64{0.5, 0.1, 0.01, 0.001}
	if c.tier == "thorough" {
		vols = append(vols, 30000, 120000)
		rates = append(rates, 0.0001, 0.9)
	}
	type vp struct {
		n int
		p float64
	}
	var cases []vp
	for _, n := range vols {
		for _, p := range rates {
			cases = append(cases, vp{n, p})
		}
	}
	// "at any volume": one filter large enough that any fixed cap on its size (a few MiB of bits) would bind
	cases = append(cases, vp{160000, 1e-6})
	if c.tier == "thorough" {
		cases = append(cases, vp{600000, 0.001}, vp{300000, 1e-5})
	}
	for _, cs := range cases {
		{
			n, p := cs.n, cs.p
			cfg := bs.DefaultBloomSearchEngineConfig()
			cfg.BloomFalsePositiveRate = p
			cfg.MaxBufferedRows = n + 10
			cfg.MaxRowGroupRows = n + 10
			cfg.MaxBufferedBytes = 1 << 30
			cfg.MaxRowGroupBytes = 1 << 30
			env := NewEnv(cfg)
			rows := make([]map[string]any, 0, n)
			for i := 0; i < n; i++ {
				rows = append(rows, map[string]any{"v": fmt.Sprintf("tok%d-%d", i, r.IntN(1<<30))})
			}
			if err := env.IngestWait(rows); err != nil {
				c.r.Add(Finding{Kind: "disagreement", Check: "volume-ingest", Detail: err.Error(), Replay: map[string]any{"n": n, "p": p}})
				env.Stop()
				continue
			}
			files, _ := AllFiles(env.Meta)
			for _, f := range files {
				data := env.Data.Published()[string(f.PointerBytes)]
				for _, bm := range f.Metadata.DataBlocks {
					fl, err := bs.ReadDataBlockBloomFilters(bytes.NewReader(data), bm)
					if err != nil {
						c.r.Add(Finding{Kind: "violation", Check: "volume-read", Detail: err.Error(), Replay: map[string]any{"n": n, "p": p}})
						continue
					}
					// one field path "v", n distinct tokens, n distinct pairs
					c.r.Case(true, fmt.Sprint("vol", n, p))
					m, k := bloom.EstimateParameters(uint(max(n, 1)), p)
					if fl.TokenBloomFilter.Cap() != m || fl.TokenBloomFilter.K() != k {
						c.r.Add(Finding{Kind: "violation", Check: "sizing-volume", Detail: fmt.Sprintf("token filter for %d distinct tokens at p=%g has (m=%d,k=%d), expected (m=%d,k=%d)", n, p, fl.TokenBloomFilter.Cap(), fl.TokenBloomFilter.K(), m, k),
							Replay: map[string]any{"n": n, "p": p}})
					}
					probes := 20000
					fp := 0
					for i := 0; i < probes; i++ {
						if fl.TokenBloomFilter.TestString(fmt.Sprintf("absent-%d-%d", i, r.IntN(1<<30))) {
							fp++
						}
					}
					rate := float64(fp) / float64(probes)
					// generous Wilson-style bound: rate must not exceed p by more than 6 sigma + discretisation slack
					sigma := math.Sqrt(p * (1 - p) / float64(probes))
					limit := p*1.6 + 6*sigma + 0.002
					c.r.Hit("volume.measured")
					c.r.Note("volume n=%d p=%g measured fp=%.5f (limit %.5f)", n, p, rate, limit)
					if n < 100 {
						// tiny filters: the realised rate of one filter is dominated by discretisation
						// (3 bits for 2 entries at p=0.5); recorded, not judged
						continue
					}
					if rate > limit {
						c.r.Add(Finding{Kind: "violation", Check: "fp-rate", Detail: fmt.Sprintf("measured false-positive rate %.5f for %d entries at configured %g exceeds tolerance %.5f", rate, n, p, limit),
							Replay: map[string]any{"n": n, "p": p, "measured": rate}})
					}
				}
			}
			env.Stop()
		}
	}
}

// c17CopiedExternal: an external writer's compressed blocks, with and without a row data checksum, copied
// verbatim by a merge next to rebuilt blocks: every block of the merge output must still read back under its
// own recorded compression and checksum, with the rows unchanged.
func c17CopiedExternal(c *ctx) {
	comps := []bs.CompressionType{bs.CompressionNone, bs.CompressionSnappy, bs.CompressionZstd}
	for i := 0; i < 18; i++ {
		// the full grid: external compression x external checksum x the merging engine's compression
		cfg := bs.DefaultBloomSearchEngineConfig()
		cfg.RowDataCompression = comps[i%3]
		cfg.PartitionFunc = partitionFunc("p")
		cfg.MaxBufferedTime = time.Hour
		h := &History{Env: NewEnv(cfg), TM: tokModes[0], PartMode: "p", Rows: map[int]*StoredRow{}}
		mk := func(id int, pid, msg string) *StoredRow {
			row := map[string]any{"_id": id, "p": pid, "msg": msg}
			b, _ := mustMarshal(row)
			return &StoredRow{ID: id, Go: row, Bytes: b, PID: pid, Vals: map[string]NumCase{}}
		}
		h.nextID = 10
		h.ExtCompression = comps[(i/3)%3]
		withHash := i/9 == 1
		extComp := h.ExtCompression
		h.writeExternal(map[string][]*StoredRow{"b": {mk(1, "b", "external row in b "+strings.Repeat("pad ", 20))}, "zz": {mk(2, "zz", "external row copied verbatim "+strings.Repeat("pad ", 20))}}, func() bool { return withHash }, c.r)
		h.ExtCompression = ""
		h.Env.IngestWait([]map[string]any{{"_id": 3, "p": "b", "msg": "engine row"}})
		_, merr := h.Env.Eng.Merge(context.Background())
		replay := map[string]any{"external_compression": string(extComp), "external_hash": withHash, "engine_compression": string(cfg.RowDataCompression), "merge_err": fmt.Sprint(merr)}
		c.r.Case(true, fmt.Sprint("copied-external", i, extComp, withHash, cfg.RowDataCompression))
		c.r.Hit("c17.copied-external")
		layout, lerr := h.Layout()
		if merr != nil {
			c.r.Add(Finding{Kind: "disagreement", Check: "history-merge", Detail: "healthy merge failed: " + merr.Error(), Replay: replay})
		} else if lerr != nil {
			c.r.Add(Finding{Kind: "violation", Check: "read-back", Detail: "a block of the merge output does not read back under its own recorded compression / checksum: " + lerr.Error(), Replay: replay})
		} else {
			ids := map[int]int{}
			for _, f := range layout {
				for _, b := range f.Blocks {
					for _, id := range b.RowIDs {
						ids[id]++
					}
				}
			}
			if ids[1] != 1 || ids[2] != 1 || ids[3] != 1 {
				c.r.Add(Finding{Kind: "violation", Check: "read-back", Detail: fmt.Sprintf("rows after the merge: %v (want each of 1,2,3 once)", ids), Replay: replay})
			}
			out := h.Env.Query(&bs.Query{})
			if out.Err != nil || len(out.Rows) != 3 {
				c.r.Add(Finding{Kind: "violation", Check: "read-back", Detail: fmt.Sprintf("a query over the merge output returns %d rows, err %v", len(out.Rows), out.Err), Replay: replay})
			}
		}
		h.Env.Stop()
	}
}

// c17EntryLess: blocks whose rows contribute no token (null leaves, empty containers, empty objects) or no
// entry at all: the measured distinct-entry counts the metadata reports must be what the rows contain -
// zero where there is nothing.
func c17EntryLess(c *ctx) {
	r := NewRng(c.seed, 172)
	pool := []map[string]any{{}, {"a": nil}, {"a": []any{}}, {"b": map[string]any{}}, {"a": nil, "c": []any{nil}}, {"d": map[string]any{"e": nil}}}
	for i := 0; i < 6*c.scale; i++ {
		cfg := bs.DefaultBloomSearchEngineConfig()
		cfg.MaxBufferedTime = time.Hour
		env := NewEnv(cfg)
		for f := 0; f < 1+r.IntN(2); f++ {
			var batch []map[string]any
			for j := 0; j < 1+r.IntN(3); j++ {
				batch = append(batch, pick(r, pool))
			}
			env.IngestWait(batch)
		}
		if r.Chance(0.5) {
			env.Eng.Merge(context.Background())
		}
		files, _ := AllFiles(env.Meta)
		pub := env.Data.Published()
		c.r.Case(true, fmt.Sprint("entry-less", i))
		c.r.Hit("c17.entry-less")
		for _, f := range files {
			for _, bm := range f.Metadata.DataBlocks {
				data, err := bs.ReadDataBlockRowData(bytes.NewReader(pub[string(f.PointerBytes)]), &bm)
				if err != nil {
					c.r.Add(Finding{Kind: "violation", Check: "read-back", Detail: err.Error(), Replay: map[string]any{"file": string(f.PointerBytes)}})
					continue
				}
				fields, toks, fts := map[string]bool{}, map[string]bool{}, map[string]bool{}
				sc := bs.NewBlockRowScanner(data)
				for {
					row, ok, err := sc.Next()
					if err != nil || !ok {
						break
					}
					fs, ts, ft := bs.VerifIndexRow(row, bs.BasicWhitespaceLowerTokenizer)
					for _, x := range fs {
						fields[x] = true
					}
					for _, x := range ts {
						toks[x] = true
					}
					for _, x := range ft {
						fts[x] = true
					}
				}
				want := bs.BloomEntryCounts{Fields: len(fields), Tokens: len(toks), FieldTokens: len(fts)}
				if bm.BloomEntryCounts != want {
					c.r.Add(Finding{Kind: "violation", Check: "entry-counts", Detail: fmt.Sprintf("block BloomEntryCounts %+v, distinct entries of its rows %+v", bm.BloomEntryCounts, want), Replay: map[string]any{"file": string(f.PointerBytes)}})
				}
			}
		}
		env.Stop()
	}
}

// c26ReconfiguredMerge: blocks written under one false-positive rate are rebuilt by a merge run by an engine
// re-opened with another rate: the merged block's filters meet the rate the block records (the merging
// engine's), measured on absent tokens.
func c26ReconfiguredMerge(c *ctx) {
	r := NewRng(c.seed, 261)
	for _, rates := range [][2]float64{{0.2, 0.001}, {0.01, 0.2}, {0.9, 0.01}} {
		cfg := bs.DefaultBloomSearchEngineConfig()
		cfg.BloomFalsePositiveRate = rates[0]
		cfg.MaxBufferedTime = time.Hour
		cfg.MaxRowGroupRows = 100000
		env := NewEnv(cfg)
		n := 600 + r.IntN(600)
		for f := 0; f < 2; f++ {
			var rows []map[string]any
			for i := 0; i < n; i++ {
				rows = append(rows, map[string]any{"v": fmt.Sprintf("tok%d-%d-%d", f, i, r.IntN(1<<30))})
			}
			env.IngestWait(rows)
		}
		env.Cfg.BloomFalsePositiveRate = rates[1]
		env.Reopen()
		_, merr := env.Eng.Merge(context.Background())
		files, _ := AllFiles(env.Meta)
		pub := env.Data.Published()
		replay := map[string]any{"written_at_rate": rates[0], "merged_at_rate": rates[1], "tokens_per_block": n, "merge_err": fmt.Sprint(merr)}
		c.r.Case(true, fmt.Sprint("reconfigured-merge", rates))
		c.r.Hit("c26.reconfigured-merge")
		for _, f := range files {
			for _, bm := range f.Metadata.DataBlocks {
				fl, err := bs.ReadDataBlockBloomFilters(bytes.NewReader(pub[string(f.PointerBytes)]), bm)
				if err != nil || fl.TokenBloomFilter == nil {
					continue
				}
				p := bm.BloomFalsePositiveRate
				probes, fp := 20000, 0
				for i := 0; i < probes; i++ {
					if fl.TokenBloomFilter.TestString(fmt.Sprintf("absent-%d-%d", i, r.IntN(1<<30))) {
						fp++
					}
				}
				rate := float64(fp) / float64(probes)
				limit := p*1.6 + 6*math.Sqrt(p*(1-p)/float64(probes)) + 0.002
				c.r.Note("reconfigured merge %v: block of %d rows records rate %g, measured %.5f (limit %.5f)", rates, bm.Rows, p, rate, limit)
				if rate > limit {
					c.r.Add(Finding{Kind: "violation", Check: "fp-rate", Detail: fmt.Sprintf("a block of %d rows records false-positive rate %g but its token filter measures %.5f (tolerance %.5f)", bm.Rows, p, rate, limit), Replay: replay})
				}
				if bm.Rows == 2*n && p != rates[1] {
					c.r.Add(Finding{Kind: "violation", Check: "sizing", Detail: fmt.Sprintf("the merged block records rate %g; the merging engine is configured with %g", p, rates[1]), Replay: replay})
				}
			}
		}
		env.Stop()
	}
}

// snappyFramingProblem checks bytes against the snappy framing format (the format the metadata value
// "snappy" names): stream identifier first, known chunk types, and no chunk whose uncompressed length
// exceeds the format's 65536-byte limit. It returns "" when the bytes are a well-formed stream.
func snappyFramingProblem(b []byte) string {
	if len(b) < 10 || string(b[:10]) != "\xff\x06\x00\x00sNaPpY" {
		return fmt.Sprintf("does not start with the snappy stream identifier (starts with %q)", b[:min(10, len(b))])
	}
	i := 0
	for i < len(b) {
		if i+4 > len(b) {
			return "truncated chunk header"
		}
		typ := b[i]
		n := int(b[i+1]) | int(b[i+2])<<8 | int(b[i+3])<<16
		i += 4
		if i+n > len(b) {
			return "chunk exceeds the stream"
		}
		body := b[i : i+n]
		i += n
		switch {
		case typ == 0xff:
			if string(body) != "sNaPpY" {
				return fmt.Sprintf("stream identifier chunk holds %q", body)
			}
		case typ == 0x00:
			if n < 5 {
				return "compressed chunk too short"
			}
			ulen, k := binary.Uvarint(body[4:])
			if k <= 0 {
				return "compressed chunk without a length"
			}
			if ulen > 65536 {
				return fmt.Sprintf("compressed chunk decodes to %d bytes; the snappy framing format allows at most 65536", ulen)
			}
		case typ == 0x01:
			if n-4 > 65536 {
				return fmt.Sprintf("uncompressed chunk of %d bytes; the snappy framing format allows at most 65536", n-4)
			}
		case typ >= 0x02 && typ <= 0x7f:
			return fmt.Sprintf("reserved unskippable chunk type %#x", typ)
		}
	}
	return ""
}

// c17LargeBlocks: blocks whose row data is far larger than a codec's internal chunk/window sizes, under every
// compression type and zstd level, written by flush and by merge: the file reads back through the public
// helpers, the rows are the rows written, queries return them, and bytes labelled "snappy" are a snappy stream.
func c17LargeBlocks(c *ctx) {
	r := NewRng(c.seed, 173)
	type comp struct {
		t     bs.CompressionType
		level int
	}
	comps := []comp{{bs.CompressionNone, 0}, {bs.CompressionSnappy, 0}, {bs.CompressionZstd, 1}, {bs.CompressionZstd, 2}, {bs.CompressionZstd, 3}}
	if c.tier == "thorough" {
		comps = append(comps, comp{bs.CompressionZstd, 4})
	}
	sizes := []int{70 << 10, 200 << 10, 600 << 10}
	words := []string{"alpha", "bravo", "charlie", "delta", "echo", "foxtrot", "golf", "hotel"}
	for _, cp := range comps {
		for _, target := range sizes {
			cfg := bs.DefaultBloomSearchEngineConfig()
			cfg.RowDataCompression = cp.t
			if cp.level > 0 {
				cfg.ZstdCompressionLevel = cp.level
			}
			cfg.MaxBufferedTime = time.Hour
			cfg.MaxBufferedRows = 1 << 20
			cfg.MaxBufferedBytes = 1 << 30
			cfg.MaxRowGroupRows = 1 << 20
			cfg.MaxRowGroupBytes = 1 << 30
			env := NewEnv(cfg)
			h := &History{Env: env, Rows: map[int]*StoredRow{}}
			id := 0
			want := map[int]int{}
			mkBatch := func(bytesWanted int) []map[string]any {
				var batch []map[string]any
				got := 0
				for got < bytesWanted {
					id++
					var sb strings.Builder
					for w := 0; w < 20+r.IntN(60); w++ {
						if r.Chance(0.3) {
							fmt.Fprintf(&sb, "%x ", r.IntN(1<<30)) // incompressible part
						} else {
							sb.WriteString(pick(r, words) + " ")
						}
					}
					batch = append(batch, map[string]any{"_id": id, "msg": sb.String()})
					want[id] = 1
					got += sb.Len() + 24
				}
				return batch
			}
			replay := map[string]any{"compression": string(cp.t), "zstd_level": cp.level, "uncompressed_target_bytes": target}
			check := func(stage string) bool {
				layout, err := h.Layout()
				if err != nil {
					c.r.Add(Finding{Kind: "violation", Check: "read-back", Detail: fmt.Sprintf("%s: a file with a large %s block (about %d uncompressed bytes) does not read back through the public helpers: %v", stage, cp.t, target, err), Replay: replay})
					return false
				}
				got := map[int]int{}
				for _, f := range layout {
					for _, b := range f.Blocks {
						for _, rid := range b.RowIDs {
							got[rid]++
						}
						if b.Meta.Compression == bs.CompressionSnappy {
							raw := f.Bytes[b.Meta.RowDataOffset : b.Meta.RowDataOffset+b.Meta.RowDataSize]
							if p := snappyFramingProblem(raw); p != "" {
								c.r.Add(Finding{Kind: "violation", Check: "compression-label", Detail: fmt.Sprintf("%s: block metadata says compression=snappy, but the stored row data (%d bytes, %d uncompressed) %s", stage, len(raw), b.Meta.UncompressedSize, p), Replay: replay})
							}
						}
						if b.Meta.Compression == bs.CompressionZstd {
							raw := f.Bytes[b.Meta.RowDataOffset : b.Meta.RowDataOffset+b.Meta.RowDataSize]
							if len(raw) < 4 || binary.LittleEndian.Uint32(raw) != 0xFD2FB528 {
								c.r.Add(Finding{Kind: "violation", Check: "compression-label", Detail: fmt.Sprintf("%s: block metadata says compression=zstd, but the stored row data does not start with the zstd frame magic", stage), Replay: replay})
							}
						}
					}
				}
				if fmt.Sprint(got) != fmt.Sprint(want) {
					c.r.Add(Finding{Kind: "violation", Check: "read-back", Detail: fmt.Sprintf("%s: rows read back from large blocks differ from the rows written (%d ids written, %d read)", stage, len(want), len(got)), Replay: replay})
					return false
				}
				out := env.Query(&bs.Query{})
				if gotQ := idsOf(out.Rows); out.Err != nil || fmt.Sprint(gotQ) != fmt.Sprint(want) {
					c.r.Add(Finding{Kind: "violation", Check: "read-back", Detail: fmt.Sprintf("%s: a match-all query over large %s blocks returned %d of %d rows (err %v)", stage, cp.t, len(gotQ), len(want), out.Err), Replay: replay})
					return false
				}
				return true
			}
			env.IngestWait(mkBatch(target))
			c.r.Case(true, fmt.Sprint("large-block", cp.t, cp.level, target))
			c.r.Hit("c17.large-block." + string(cp.t))
			if check("after flush") {
				env.IngestWait(mkBatch(target / 2))
				if _, err := env.Eng.Merge(context.Background()); err != nil {
					c.r.Add(Finding{Kind: "violation", Check: "read-back", Detail: fmt.Sprintf("merging two files with large %s blocks failed: %v", cp.t, err), Replay: replay})
				} else {
					check("after merge")
				}
			}
			env.Stop()
		}
	}
}

// c17TransientWriteFaults: "every file produced by flush or merge" includes the files of histories in which a
// store call failed once. For every call position of a flush and of a merge a single failure is injected;
// whatever the engine then commits to the MetaStore must parse with ReadFileMetadata, agree with the
// MetaStore's copy and read back through the helpers.
func c17TransientWriteFaults(c *ctx) {
	for _, op := range []string{"flush", "merge"} {
		for k := 1; k <= 16; k++ {
			cfg := bs.DefaultBloomSearchEngineConfig()
			cfg.PartitionFunc = partitionFunc("p")
			cfg.MaxBufferedTime = time.Hour
			cfg.RowDataCompression = bs.CompressionNone
			env := NewEnv(cfg)
			h := &History{Env: env, Rows: map[int]*StoredRow{}}
			env.IngestWait([]map[string]any{{"_id": 1, "p": "a", "m": "one"}, {"_id": 2, "p": "b", "m": "two"}})
			if op == "merge" {
				env.IngestWait([]map[string]any{{"_id": 3, "p": "a", "m": "three"}, {"_id": 4, "p": "b", "m": "four"}})
			}
			env.Data.ResetLog()
			env.Data.SetFaults([]string{"create", "write", "close"}, k)
			var opErr error
			if op == "flush" {
				opErr = env.IngestWait([]map[string]any{{"_id": 5, "p": "a", "m": "five"}, {"_id": 6, "p": "b", "m": "six"}})
			} else {
				_, opErr = env.Eng.Merge(context.Background())
			}
			reached := injectedFailure(env.Data.Log(), "create") || injectedFailure(env.Data.Log(), "write") || injectedFailure(env.Data.Log(), "close")
			env.Data.ClearFaults()
			replay := map[string]any{"operation": op, "failed_store_call_index": k, "result": fmt.Sprint(opErr)}
			c.r.Case(reached, fmt.Sprint("transient-write-fault", op, k))
			c.r.Hit("c17.transient-fault." + op)
			files, _ := AllFiles(env.Meta)
			pub := env.Data.Published()
			for _, f := range files {
				data := pub[string(f.PointerBytes)]
				md, _, err := bs.ReadFileMetadata(bytes.NewReader(data))
				if err != nil {
					c.r.Add(Finding{Kind: "violation", Check: "read-back", Detail: fmt.Sprintf("after a %s in which store call %d failed once (result: %v), committed file %s does not parse with ReadFileMetadata: %v", op, k, opErr, f.PointerBytes, err), Replay: replay})
					continue
				}
				if len(md.DataBlocks) != len(f.Metadata.DataBlocks) {
					c.r.Add(Finding{Kind: "violation", Check: "metadata-copy", Detail: fmt.Sprintf("committed file %s: footer lists %d blocks, the MetaStore copy %d", f.PointerBytes, len(md.DataBlocks), len(f.Metadata.DataBlocks)), Replay: replay})
				}
			}
			if _, err := h.Layout(); err != nil {
				c.r.Add(Finding{Kind: "violation", Check: "read-back", Detail: fmt.Sprintf("after a %s in which store call %d failed once (result: %v), a committed file does not read back through the public helpers: %v", op, k, opErr, err), Replay: replay})
			}
			env.Stop()
		}
	}
}

// c18SharedVocabulary (C18): partitions of one flush that use the same field paths and the same tokens but pair
// them differently (and rows without any per-row unique value), so that block-level and file-level entry SETS
// coincide for fields and tokens and differ only in the field:token pairs. Every Lean-model entry of every
// stored row must test positive in its block's and in its file's filters, after the flush and after a merge,
// and a FieldToken query for a pair stored in one block only must return that row.
func c18SharedVocabulary(c *ctx) {
	r := NewRng(c.seed, 174)
	colours := []string{"red", "blue", "green", "amber"}
	fields := []string{"a", "b", "c", "d"}
	for i := 0; i < 6*c.scale; i++ {
		n := 2 + i%3 // partitions = rotation count
		cfg := bs.DefaultBloomSearchEngineConfig()
		cfg.MaxBufferedTime = time.Hour
		cfg.RowDataCompression = pick(r, []bs.CompressionType{bs.CompressionNone, bs.CompressionSnappy})
		cfg.PartitionFunc = func(row map[string]any) string { s, _ := row["a"].(string); return "part-" + s }
		env := NewEnv(cfg)
		mk := func() []map[string]any {
			var batch []map[string]any
			for rot := 0; rot < n; rot++ {
				row := map[string]any{}
				for f := 0; f < n; f++ {
					row[fields[f]] = colours[(f+rot)%n]
				}
				batch = append(batch, row)
				if r.Chance(0.4) {
					batch = append(batch, row) // the same row twice adds no entry
				}
			}
			r.Shuffle(len(batch), func(x, y int) { batch[x], batch[y] = batch[y], batch[x] })
			return batch
		}
		check := func(stage string) {
			files, _ := AllFiles(env.Meta)
			pub := env.Data.Published()
			for _, f := range files {
				data := pub[string(f.PointerBytes)]
				meta, _, err := bs.ReadFileMetadata(bytes.NewReader(data))
				if err != nil {
					c.r.Add(Finding{Kind: "violation", Check: "read-back", Detail: err.Error(), Replay: map[string]any{"stage": stage}})
					continue
				}
				for _, bm := range meta.DataBlocks {
					rows, err := bs.ReadDataBlockRowData(bytes.NewReader(data), &bm)
					fl, err2 := bs.ReadDataBlockBloomFilters(bytes.NewReader(data), bm)
					if err != nil || err2 != nil {
						c.r.Add(Finding{Kind: "violation", Check: "read-back", Detail: fmt.Sprint(err, err2), Replay: map[string]any{"stage": stage}})
						continue
					}
					sc := bs.NewBlockRowScanner(rows)
					for {
						rb, ok, err := sc.Next()
						if err != nil || !ok {
							break
						}
						ef, et, eft := modelEntries(c, tokModes[0], rb)
						probe := func(fl *bloom.BloomFilter, entries []string, level, kind string) {
							for _, e := range entries {
								if fl != nil && !fl.TestString(e) {
									c.r.Add(Finding{Kind: "violation", Check: level + "-filter-missing-entry", Detail: fmt.Sprintf("%s: %s %s filter of a file with %d blocks does not contain entry %q of stored row %s (partition %q)", stage, level, kind, len(meta.DataBlocks), e, rb, bm.PartitionID),
										Replay: map[string]any{"stage": stage, "partitions": n, "row": string(rb), "file": string(f.PointerBytes)}})
									return
								}
							}
						}
						probe(fl.FieldBloomFilter, ef, "block", "field")
						probe(fl.TokenBloomFilter, et, "block", "token")
						probe(fl.FieldTokenBloomFilter, eft, "block", "field-token")
						probe(meta.BloomFilters.FieldBloomFilter, ef, "file", "field")
						probe(meta.BloomFilters.TokenBloomFilter, et, "file", "token")
						probe(meta.BloomFilters.FieldTokenBloomFilter, eft, "file", "field-token")
					}
				}
			}
			// every stored pair is found by its FieldToken query
			for rot := 0; rot < n; rot++ {
				for f := 0; f < n; f++ {
					out := env.Query(bs.NewQuery().FieldToken(fields[f], colours[(f+rot)%n]).Build())
					if len(out.Rows) == 0 || out.Err != nil {
						c.r.Add(Finding{Kind: "violation", Check: "file-filter-missing-entry", Detail: fmt.Sprintf("%s: FieldToken(%s, %s) returns no row although a stored row holds that pair (err %v)", stage, fields[f], colours[(f+rot)%n], out.Err), Replay: map[string]any{"stage": stage, "partitions": n}})
					}
				}
			}
		}
		env.IngestWait(mk())
		c.r.Case(true, fmt.Sprint("shared-vocabulary", i, n))
		c.r.Hit("c18.shared-vocabulary")
		check("after one flush")
		env.IngestWait(mk())
		if _, err := env.Eng.Merge(context.Background()); err == nil {
			check("after merge")
		}
		env.Stop()
	}
}

// c18SaturatedRanges (C18): blocks whose indexed values clamp to one or both ends of int64 (floats beyond
// the range, uint64 above MaxInt64), alone and next to ordinary values. A block lists exactly the indexed keys
// its rows provided - a range that covers everything is still a listed key - and strict prefilters on the key
// keep the block.
func c18SaturatedRanges(c *ctx) {
	cases := []struct {
		name string
		vals []any
	}{
		{"both ends", []any{-1e30, 1e30}},
		{"both ends and middle", []any{-1e30, 5, 1e30}},
		{"upper end only", []any{uint64(math.MaxUint64), 7}},
		{"lower end only", []any{-1e300, -3}},
		{"exact extremes", []any{int64(math.MinInt64), int64(math.MaxInt64)}},
		{"single saturated value", []any{1e19}},
	}
	for _, tc := range cases {
		for _, comp := range []bs.CompressionType{bs.CompressionNone, bs.CompressionSnappy} {
			cfg := bs.DefaultBloomSearchEngineConfig()
			cfg.MaxBufferedTime = time.Hour
			cfg.MinMaxIndexes = []string{"v", "w"}
			cfg.RowDataCompression = comp
			env := NewEnv(cfg)
			var rows []map[string]any
			for i, v := range tc.vals {
				rows = append(rows, map[string]any{"_id": i + 1, "v": v, "w": i})
			}
			env.IngestWait(rows)
			check := func(stage string, want int) {
				files, _ := AllFiles(env.Meta)
				replay := map[string]any{"case": tc.name, "values": fmt.Sprint(tc.vals), "stage": stage}
				for _, f := range files {
					for _, b := range f.Metadata.DataBlocks {
						for _, k := range []string{"v", "w"} {
							if _, ok := b.MinMaxIndexes[k]; !ok {
								c.r.Add(Finding{Kind: "violation", Check: "minmax-keys", Detail: fmt.Sprintf("%s (%s): the block does not list minmax key %q although every row provides it (ranges: %v)", tc.name, stage, k, b.MinMaxIndexes), Replay: replay})
							}
						}
					}
				}
				for _, cond := range []bs.NumericCondition{bs.NumericGreaterThanEqual(math.MinInt64), bs.NumericLessThanEqual(math.MaxInt64), bs.NumericNotEquals(12345)} {
					out := env.Query(bs.NewQuery().MatchPrefilter(bs.MinMax("v", cond)).Build())
					if len(out.Rows) != want || out.Err != nil {
						c.r.Add(Finding{Kind: "violation", Check: "minmax-cover", Detail: fmt.Sprintf("%s (%s): prefilter v %s %d returns %d of %d rows although every value satisfies it (err %v)", tc.name, stage, cond.Operator, cond.Value, len(out.Rows), want, out.Err), Replay: replay})
					}
				}
			}
			c.r.Case(true, fmt.Sprint("saturated-range ", tc.name, comp))
			c.r.Hit("c18.saturated-range")
			check("after flush", len(tc.vals))
			env.IngestWait(rows)
			if _, err := env.Eng.Merge(context.Background()); err == nil {
				check("after merge", 2*len(tc.vals))
			}
			env.Stop()
		}
	}
}
