package main

import (
	"context"
	"fmt"
	"os"
	"path/filepath"
	"regexp"
	"sort"
	"strings"
	"unicode"
	"unicode/utf8"

	bs "github.com/danthegoodman1/bloomsearch"
)

func init() {
	props["C01"] = func(c *ctx) { runContent(c, "C01") }
	props["C02"] = func(c *ctx) { runContent(c, "C02") }
}

func runContent(c *ctx, which string) {
	c.r.Rule = "T-diff at three granularities: (a) per row — production walker vs reference walker vs Lean walk, entries vs Lean entries (row bytes parsed with encoding/json, not gjson), " +
		"tokenizer fast path vs strings.Fields∘ToLower vs Lean; (b) per (query,row) — compiled matcher vs Lean documented semantics, with Go regexp as oracle table; " +
		"(c) end to end — random ingest/flush/merge/reopen/external-writer histories, queries checked against model verdicts per row and per block " +
		"(C01: lower bound; C02: exact / block-granular / no duplicates). Non-trivial = row matched / verdict true-and-false both exercised; distinct by input text"
	uniCheck(c)
	rowChecks(c)
	matchChecks(c)
	e2eChecks(c, which)
	rowLimitShapeMerges(c) // merges whose greedy grouping skips and absorbs blocks: nothing lost (C01), nothing twice (C02)
}

// ---------------------------------------------------------------- unicode tables and tokenizer

func uniCheck(c *ctx) {
	check := func(cp rune) {
		want := fmt.Sprintf("%s %d", b2s(unicode.IsSpace(cp)), unicode.ToLower(cp))
		got := c.m.Ask(fmt.Sprintf("uni %d", cp))
		c.r.Case(unicode.IsSpace(cp) || unicode.ToLower(cp) != cp, fmt.Sprint("uni", cp))
		if got != want {
			c.r.Add(Finding{Kind: "disagreement", Check: "unicode-table", Detail: fmt.Sprintf("U+%04X: Go %s model %s", cp, want, got), Replay: map[string]any{"cp": cp}})
		}
	}
	if c.tier == "thorough" {
		for cp := rune(0); cp <= unicode.MaxRune; cp++ {
			if cp >= 0xd800 && cp <= 0xdfff {
				continue
			}
			check(cp)
		}
		c.r.Note("unicode tables: all 1,112,064 scalar values compared (exhaustive)")
		return
	}
	for cp := rune(0); cp < 0x3100; cp++ {
		check(cp)
	}
	r := NewRng(c.seed, 100)
	for i := 0; i < 20000; i++ {
		cp := rune(r.IntN(0x110000))
		if cp >= 0xd800 && cp <= 0xdfff {
			continue
		}
		check(cp)
	}
	for _, cp := range []rune{0xa7ae, 0x10400, 0x1e921, 0x16e40, 0x118a0, 0x10c80, 0x104b0, 0x1c90, 0x2c00, 0xff21} {
		check(cp)
	}
}

func tokList(ts []string) string {
	var t toks
	t.n(len(ts))
	for _, s := range ts {
		t.s(s)
	}
	return t.String()
}

// ---------------------------------------------------------------- (a) per-row

func emLine(es []bs.VerifEmission) string {
	var t toks
	t.n(len(es))
	for _, e := range es {
		t.s(e.Path)
		if e.IsLeaf {
			t.add("L")
		} else {
			t.add("C")
		}
		if e.HasText {
			t.add("S").s(e.Text)
		} else {
			t.add("N")
		}
	}
	return t.String()
}

func entLine(f, tk, ft []string) string {
	var t toks
	for _, p := range []struct {
		tag string
		l   []string
	}{{"F", f}, {"T", tk}, {"FT", ft}} {
		t.add(p.tag).n(len(p.l))
		for _, s := range p.l {
			t.s(s)
		}
	}
	return t.String()
}

func rowChecks(c *ctx) {
	r := NewRng(c.seed, 101)
	n := 2500 * c.scale
	for i := 0; i < n; i++ {
		row := genRow(r, i)
		rb, ok := mustMarshal(row)
		if !ok {
			c.r.Hit("row.unmarshalable")
			continue
		}
		var jt toks
		if err := jsonTok(&jt, rb); err != nil {
			c.r.Hit("row.json-tok-error")
			continue
		}
		key := string(rb)
		// walker: production vs reference vs model
		prod := emLine(bs.VerifWalk(rb, "."))
		ref := emLine(bs.VerifRefWalk(rb, "."))
		model := c.m.Ask("walk " + jt.String())
		c.r.Case(len(prod) > 2, "walk "+key)
		if i < 2 {
			c.r.Sample(map[string]any{"check": "walk", "row": trunc(key, 200), "emissions": trunc(prod, 300)})
		}
		if prod != ref {
			c.r.Add(Finding{Kind: "violation", Check: "walker-vs-reference", Detail: "production walker and reference walker disagree (indexing and the property tests' expectations diverge)", Replay: map[string]any{"row": key, "production": prod, "reference": ref}})
		}
		if prod != model {
			c.r.Add(Finding{Kind: "disagreement", Check: "walker", Detail: "production walker emissions differ from the Lean walk", Replay: map[string]any{"row": key, "impl": prod, "model": model}})
		}
		// entries under each tokenizer
		tm := tokModes[i%len(tokModes)]
		texts := leafTexts(rb)
		f, tk, ft := bs.VerifIndexRow(rb, tm.fn)
		var et toks
		et.add("ent")
		tokTableTok(&et, tm, texts)
		et.add(jt.String())
		me := c.m.Ask(et.String())
		ie := entLine(f, tk, ft)
		c.r.Case(len(tk) > 0, "ent "+tm.name+key)
		c.r.Hit("ent.tok." + tm.name)
		if ie != me {
			c.r.Add(Finding{Kind: "disagreement", Check: "entries", Detail: "indexRow entries differ from the Lean entries (tokenizer " + tm.name + ")", Replay: map[string]any{"row": key, "tokenizer": tm.name, "impl": ie, "model": me}})
		}
		// tokenizer on each leaf text: reference vs fast path vs model
		for _, x := range texts {
			a := tokList(bs.BasicWhitespaceLowerTokenizer(x))
			b := tokList(bs.VerifFastTokens(x))
			m := c.m.Ask("tok " + hx(x))
			c.r.Case(strings.ContainsAny(x, " \t\n") || x != strings.ToLower(x), "tok "+x)
			if a != b {
				c.r.Add(Finding{Kind: "violation", Check: "tokenizer-fast-path", Detail: fmt.Sprintf("fast path tokens differ from BasicWhitespaceLowerTokenizer on %q: ingest and query tokenize differently", x), Replay: map[string]any{"text": x, "reference": a, "fast": b}})
			}
			if a != m {
				c.r.Add(Finding{Kind: "disagreement", Check: "tokenizer", Detail: fmt.Sprintf("BasicWhitespaceLowerTokenizer(%q) differs from the Lean tokenizer", x), Replay: map[string]any{"text": x, "impl": a, "model": m}})
			}
		}
	}
	// dedicated tokenizer stream: every space rune and case corner in context
	for i := 0; i < 3000*c.scale; i++ {
		x := genString(r)
		a := tokList(bs.BasicWhitespaceLowerTokenizer(x))
		b := tokList(bs.VerifFastTokens(x))
		m := c.m.Ask("tok " + hx(x))
		c.r.Case(true, "tok2 "+x)
		if a != b {
			c.r.Add(Finding{Kind: "violation", Check: "tokenizer-fast-path", Detail: fmt.Sprintf("fast path tokens differ from BasicWhitespaceLowerTokenizer on %q", x), Replay: map[string]any{"text": x, "reference": a, "fast": b}})
		}
		if a != m {
			c.r.Add(Finding{Kind: "disagreement", Check: "tokenizer", Detail: fmt.Sprintf("BasicWhitespaceLowerTokenizer(%q) differs from the Lean tokenizer", x), Replay: map[string]any{"text": x, "impl": a, "model": m}})
		}
	}
}

// ---------------------------------------------------------------- (b) per (query,row)

type modelVerdict struct {
	valid bool
	match bool
	prune bool
}

func askMatch(c *ctx, tm tokMode, q *bs.Query, rb []byte, jt string) modelVerdict {
	return askMatchTexts(c, tm, q, leafTexts(rb), jt)
}

// askMatchTexts: the tokenizer table and the regex oracle are built over the given leaf texts.
func askMatchTexts(c *ctx, tm tokMode, q *bs.Query, texts []string, jt string) modelVerdict {
	var t toks
	t.add("match")
	tokTableTok(&t, tm, texts)
	bloomQueryTok(&t, q.Bloom)
	regexQueryTok(&t, q.Regex)
	oracleTok(&t, q.Regex, texts)
	t.add(jt)
	resp := c.m.Ask(t.String())
	if resp == "invalid" {
		return modelVerdict{}
	}
	parts := strings.Fields(resp)
	if len(parts) != 2 {
		fatal("model match response %q for %s", resp, trunc(t.String(), 400))
	}
	return modelVerdict{valid: true, match: parts[0] == "1", prune: parts[1] == "1"}
}

func regexCompiles(e *bs.RegexExpression) bool {
	if e == nil {
		return true
	}
	switch e.ExpressionType {
	case bs.RegexExpressionCondition:
		if e.Condition == nil {
			return true
		}
		_, err := regexp.Compile(e.Condition.Pattern)
		return err == nil
	case bs.RegexExpressionAnd, bs.RegexExpressionOr:
		for i := range e.Children {
			if !regexCompiles(&e.Children[i]) {
				return false
			}
		}
		return true
	}
	return false
}

func genQuery(r Rng, p *pools, allowInvalid bool) *bs.Query {
	q := &bs.Query{}
	switch r.Pick(10) {
	case 0:
	case 1:
		q.Bloom = &bs.BloomQuery{}
	case 2, 3, 4:
		if len(p.leaves) > 0 {
			e := p.leafExpr(r)
			q.Bloom = &bs.BloomQuery{Expression: &e}
			break
		}
		fallthrough
	default:
		e := genBloomExpr(r, p, 3)
		q.Bloom = &bs.BloomQuery{Expression: &e}
	}
	if r.Chance(0.45) {
		e := genRegexExpr(r, p, 2, allowInvalid)
		q.Regex = &bs.RegexQuery{Expression: &e}
	} else if r.Chance(0.1) {
		q.Regex = &bs.RegexQuery{}
	}
	return q
}

func matchChecks(c *ctx) {
	r := NewRng(c.seed, 102)
	groups := 60 * c.scale
	for g := 0; g < groups; g++ {
		tm := tokModes[g%len(tokModes)]
		var rows [][]byte
		var jts []string
		for len(rows) < 8 {
			rb, ok := mustMarshal(genRow(r, len(rows)))
			if !ok {
				continue
			}
			var jt toks
			if jsonTok(&jt, rb) != nil {
				continue
			}
			rows = append(rows, rb)
			jts = append(jts, jt.String())
		}
		p := buildPools(rows, tm)
		for qi := 0; qi < 30; qi++ {
			q := genQuery(r, p, true)
			for ri, rb := range rows {
				compiled, reference, err := bs.VerifMatchRow(rb, q.Bloom, q.Regex, tm.fn)
				mv := askMatch(c, tm, q, rb, jts[ri])
				key := fmt.Sprint(g, qi, ri)
				if err != nil {
					c.r.Case(false, key)
					c.r.Hit("match.regex-compile-error")
					var re *bs.RegexExpression
					if q.Regex != nil {
						re = q.Regex.Expression
					}
					if mv.valid && regexCompiles(re) {
						c.r.Add(Finding{Kind: "disagreement", Check: "regex-validity", Detail: "implementation rejects a regex tree the model accepts: " + err.Error(), Replay: map[string]any{"query": q}})
					}
					continue
				}
				if !mv.valid {
					c.r.Add(Finding{Kind: "disagreement", Check: "regex-validity", Detail: "model rejects a regex tree the implementation compiles", Replay: map[string]any{"query": q}})
					continue
				}
				c.r.Case(true, key)
				c.r.Hit("match.verdict." + b2s(compiled))
				if qi == 0 && ri == 0 && g < 3 {
					c.r.Sample(map[string]any{"check": "match", "row": trunc(string(rb), 200), "query": q, "impl": compiled, "model": mv.match})
				}
				if compiled != mv.match {
					kind := "disagreement"
					detail := "compiled matcher verdict differs from the documented semantics (Lean matchRow)"
					if mv.match && !compiled {
						kind = "violation"
						detail = "row satisfies the query under the documented semantics but the compiled matcher rejects it (false negative at row verification)"
					}
					c.r.Add(Finding{Kind: kind, Check: "row-matcher", Detail: detail, Replay: map[string]any{"row": string(rb), "query": q, "tokenizer": tm.name, "impl": compiled, "model": mv.match}})
				}
				if compiled && !reference {
					c.r.Add(Finding{Kind: "disagreement", Check: "matcher-vs-reference", Detail: "compiled matcher accepts a row the set-based reference rejects", Replay: map[string]any{"row": string(rb), "query": q}})
				}
				if mv.match && !mv.prune {
					c.r.Add(Finding{Kind: "disagreement", Check: "model-self-check", Detail: "model: row matches but the prune query is false on its own entries (contradicts match_implies_entries)", Replay: map[string]any{"row": string(rb), "query": q}})
				}
			}
		}
	}
}

// ---------------------------------------------------------------- (c) end to end

func genPrefilterFor(r Rng, h *History) *bs.QueryPrefilter {
	if r.Chance(0.45) {
		return nil
	}
	var around []int64
	for _, id := range h.Order {
		for _, nc := range h.Rows[id].Vals {
			if lo, hi, ok := bs.ConvertToMinMaxInt64(nc.Go); ok {
				around = append(around, lo, hi)
			}
		}
		if len(around) > 40 {
			break
		}
	}
	e := genPreExpr(r, 2, around)
	return &bs.QueryPrefilter{Expression: &e}
}

// rowDirectedPrefilter is the sharpest probe of block metadata: a single condition built from one stored
// row's own indexed value (so that row satisfies it), touching the boundary of its int64 cover.
func rowDirectedPrefilter(r Rng, h *History) *bs.QueryPrefilter {
	if len(h.Order) > 0 && (len(h.Keys) == 0 || r.Chance(0.35)) {
		// a partition condition written around one stored row's own partition: value lists in no particular
		// order (as a decoded or hand-written condition may carry them), ranges touching it, complements
		sr := h.Rows[h.Order[r.IntN(len(h.Order))]]
		if sr.PID != "" {
			p := sr.PID
			var sc bs.StringCondition
			switch r.Pick(6) {
			case 0:
				sc = bs.StringCondition{Operator: bs.OpIn, Values: []string{"zz-last", p, "aa-first", "mm"}}
			case 1:
				sc = bs.StringCondition{Operator: bs.OpIn, Values: []string{p + "x", "~", p}}
			case 2:
				sc = bs.PartitionBetween(p, p)
			case 3:
				sc = bs.StringCondition{Operator: bs.OpNotIn, Values: []string{"zz", p + "x", "aa"}}
			case 4:
				sc = bs.PartitionGreaterThanEqual(p)
			default:
				sc = bs.PartitionLessThanEqual(p)
			}
			e := bs.Partition(sc)
			return &bs.QueryPrefilter{Expression: &e}
		}
	}
	if len(h.Order) == 0 || len(h.Keys) == 0 {
		return nil
	}
	for try := 0; try < 10; try++ {
		sr := h.Rows[h.Order[r.IntN(len(h.Order))]]
		key := pick(r, h.Keys)
		nc, ok := sr.Vals[key]
		if !ok {
			continue
		}
		lo, hi, ok := bs.ConvertToMinMaxInt64(nc.Go)
		if !ok {
			continue
		}
		var cond bs.NumericCondition
		switch r.Pick(5) {
		case 0:
			cond = bs.NumericGreaterThanEqual(hi)
		case 1:
			cond = bs.NumericLessThanEqual(lo)
		case 2:
			cond = bs.NumericBetween(lo, hi)
		case 3:
			if lo > -1<<62 {
				cond = bs.NumericGreaterThan(lo - 1)
			} else {
				cond = bs.NumericGreaterThanEqual(lo)
			}
		default:
			if hi < 1<<62 {
				cond = bs.NumericLessThan(hi + 1)
			} else {
				cond = bs.NumericLessThanEqual(hi)
			}
		}
		e := bs.MinMax(key, cond)
		return &bs.QueryPrefilter{Expression: &e}
	}
	return nil
}

func e2eChecks(c *ctx, which string) {
	r := NewRng(c.seed, 103)
	hist := 40 * c.scale
	for hi := 0; hi < hist; hi++ {
		h := NewHistory(r)
		// external writers of these histories hand WriteFileFooter any subset of the file-level filters
		er := NewRng(c.seed, 1030+uint64(hi))
		h.ExtFileFilters = func() int { return er.IntN(8) }
		h.Run(r, 6+r.IntN(10), c.r)
		if r.Chance(0.5) {
			if _, err := h.Env.Eng.Merge(context.Background()); err != nil {
				c.r.Add(Finding{Kind: "disagreement", Check: "history-merge", Detail: "healthy merge failed: " + err.Error(), Replay: h.Ops})
			}
			h.Ops = append(h.Ops, "merge (final)")
		}
		if r.Chance(0.5) {
			// an external writer's file that no merge has rewritten yet (its own footer, its own filter set)
			h.externalFile(r, c.r)
		}
		layout, err := h.Layout()
		if err != nil {
			c.r.Add(Finding{Kind: "violation", Check: "e2e-layout", Detail: "a file written by the engine does not read back through the public helpers: " + err.Error(), Replay: map[string]any{"ops": h.Ops}})
			h.Env.Stop()
			continue
		}
		// stored multiset as read back vs acknowledged rows
		stored := map[int]int{}
		var rowBytes [][]byte
		rowOf := map[int][]byte{}
		for _, f := range layout {
			for _, b := range f.Blocks {
				for i, id := range b.RowIDs {
					stored[id]++
					rowOf[id] = b.Rows[i]
				}
			}
		}
		for id := range h.Rows {
			if stored[id] != 1 {
				c.r.Add(Finding{Kind: "violation", Check: "e2e-stored", Detail: fmt.Sprintf("acknowledged row %d is stored %d times", id, stored[id]), Replay: map[string]any{"ops": h.Ops}})
			}
		}
		ids := make([]int, 0, len(rowOf))
		for id := range rowOf {
			ids = append(ids, id)
		}
		sort.Ints(ids)
		jts := map[int]string{}
		for _, id := range ids {
			rowBytes = append(rowBytes, rowOf[id])
			var jt toks
			if err := jsonTok(&jt, rowOf[id]); err != nil {
				fatal("stored row does not parse: %v", err)
			}
			jts[id] = jt.String()
		}
		p := buildPools(rowBytes, h.TM)
		// the same files served by the shipped FileSystemDataStore (as DataStore and MetaStore: metadata is
		// re-read from each file's own footer): whatever produced a file, its rows must be found there too
		fsDir, err := os.MkdirTemp("", "bse2e")
		if err != nil {
			fatal("tempdir: %v", err)
		}
		for _, f := range layout {
			if err := os.WriteFile(filepath.Join(fsDir, f.Ptr+".dat"), f.Bytes, 0o600); err != nil {
				fatal("write: %v", err)
			}
		}
		fsStore := bs.NewFileSystemDataStore(fsDir)
		fsEng, err := bs.NewBloomSearchEngine(h.Env.Cfg, fsStore, fsStore)
		if err != nil {
			fatal("engine: %v", err)
		}
		nq := 24
		for qi := 0; qi < nq; qi++ {
			q := genQuery(r, p, false)
			q.Prefilter = genPrefilterFor(r, h)
			if qi%3 == 1 {
				// prefilter-focused: every row matches, so the answer is decided by block metadata alone
				q.Bloom, q.Regex = nil, nil
				for k := 0; k < 8 && q.Prefilter == nil; k++ {
					q.Prefilter = genPrefilterFor(r, h)
				}
				if pf := rowDirectedPrefilter(r, h); pf != nil && r.Chance(0.6) {
					q.Prefilter = pf
				}
			}
			// io.Reader lets a store return fewer bytes than asked: every third query runs over such a store
			if qi%3 == 2 {
				h.Env.Data.ShortReads = 1 + r.IntN(48)
			}
			out := h.Env.Query(q)
			h.Env.Data.ShortReads = 0
			got := idsOf(out.Rows)
			fsOut := RunQuery(fsEng, q)
			gotFS := idsOf(fsOut.Rows)
			if out.Err != nil {
				c.r.Add(Finding{Kind: "violation", Check: "e2e-query-error", Detail: "query over healthy stores ended with an error: " + out.Err.Error(), Replay: map[string]any{"ops": h.Ops, "query": q}})
			}
			// model verdicts
			match := map[int]bool{}
			nmatch := 0
			for _, id := range ids {
				mv := askMatch(c, h.TM, q, rowOf[id], jts[id])
				if !mv.valid {
					fatal("generated query invalid for model: %+v", q)
				}
				match[id] = mv.match
				if mv.match {
					nmatch++
				}
			}
			c.r.Hit(fmt.Sprintf("e2e.answer.%s", map[bool]string{true: "nonempty", false: "empty"}[nmatch > 0]))
			hasPre := q.Prefilter != nil && q.Prefilter.Expression != nil
			// per block prefilter verdicts from the model
			blockKept := map[string]bool{}
			expected := map[int]bool{}
			for _, f := range layout {
				for _, b := range f.Blocks {
					kept := true
					if hasPre {
						t := (&toks{}).add("pre")
						bm := b.Meta
						metaTok(t, &bm)
						prefilterTok(t, q.Prefilter)
						kept = c.m.Ask(t.String()) == "1"
					}
					blockKept[fmt.Sprint(f.Ptr, b.Meta.RowDataOffset)] = kept
					if kept {
						for _, id := range b.RowIDs {
							if match[id] {
								expected[id] = true
							}
						}
					}
				}
			}
			for _, id := range ids {
				sr := h.Rows[id]
				c.r.Case(match[id], fmt.Sprint("e2e", hi, qi, id))
				// C01: lower bound
				if which == "C01" && match[id] && sr != nil {
					sat := true
					if hasPre {
						t := (&toks{}).add("rowpre")
						sr.rowPreTok(t, h.Keys)
						prefilterTok(t, q.Prefilter)
						sat = c.m.Ask(t.String()) == "1"
					}
					if sat && gotFS[id] == 0 {
						c.r.Add(Finding{Kind: "violation", Check: "e2e-false-negative", Detail: fmt.Sprintf("stored row %d matches the query and satisfies the prefilter but is not returned when the same files are served by FileSystemDataStore (err %v)", id, fsOut.Err),
							Replay: map[string]any{"ops": h.Ops, "row": string(rowOf[id]), "query": q, "tokenizer": h.TM.name, "partition": sr.PID, "hosted": "filesystem"}})
					}
					if sat && got[id] == 0 {
						c.r.Add(Finding{Kind: "violation", Check: "e2e-false-negative", Detail: fmt.Sprintf("stored row %d matches the query and satisfies the prefilter but was not returned", id),
							Replay: map[string]any{"ops": h.Ops, "row": string(rowOf[id]), "query": q, "tokenizer": h.TM.name, "partition": sr.PID}})
					}
					if sat && !expected[id] {
						c.r.Add(Finding{Kind: "disagreement", Check: "e2e-model-cover", Detail: fmt.Sprintf("model: row %d satisfies the prefilter but its block's metadata does not (C04/C18 correspondence)", id),
							Replay: map[string]any{"ops": h.Ops, "row": string(rowOf[id]), "query": q}})
					}
				}
				if which == "C02" {
					if got[id] > stored[id] {
						c.r.Add(Finding{Kind: "violation", Check: "e2e-duplicate", Detail: fmt.Sprintf("row %d returned %d times, stored %d times", id, got[id], stored[id]), Replay: map[string]any{"ops": h.Ops, "query": q}})
					}
					if gotFS[id] > stored[id] || (gotFS[id] > 0 && !match[id]) {
						c.r.Add(Finding{Kind: "violation", Check: "e2e-false-positive", Detail: fmt.Sprintf("row %d returned %d times by the filesystem-hosted engine (stored %d, matches=%v)", id, gotFS[id], stored[id], match[id]), Replay: map[string]any{"ops": h.Ops, "query": q, "hosted": "filesystem"}})
					}
					if got[id] > 0 && !match[id] {
						c.r.Add(Finding{Kind: "violation", Check: "e2e-false-positive", Detail: fmt.Sprintf("row %d was returned but does not satisfy the query under the documented semantics", id),
							Replay: map[string]any{"ops": h.Ops, "row": string(rowOf[id]), "query": q, "tokenizer": h.TM.name}})
					}
					if (got[id] > 0) != expected[id] {
						kind := "exact"
						if hasPre {
							kind = "block-granular"
						}
						c.r.Add(Finding{Kind: "violation", Check: "e2e-" + kind, Detail: fmt.Sprintf("row %d: returned=%v but the %s answer says %v", id, got[id] > 0, kind, expected[id]),
							Replay: map[string]any{"ops": h.Ops, "row": string(rowOf[id]), "query": q, "tokenizer": h.TM.name}})
					}
					if fsOut.Err == nil && (gotFS[id] > 0) != expected[id] {
						// the same files served from a directory (metadata and filters re-read from each footer)
						kind := "exact"
						if hasPre {
							kind = "block-granular"
						}
						c.r.Add(Finding{Kind: "violation", Check: "e2e-" + kind, Detail: fmt.Sprintf("row %d: returned=%v by the filesystem-hosted engine but the %s answer says %v", id, gotFS[id] > 0, kind, expected[id]),
							Replay: map[string]any{"ops": h.Ops, "row": string(rowOf[id]), "query": q, "tokenizer": h.TM.name, "hosted": "filesystem"}})
					}
				}
			}
			for id := range got {
				if _, ok := rowOf[id]; !ok {
					c.r.Add(Finding{Kind: "violation", Check: "e2e-phantom", Detail: fmt.Sprintf("returned row %d is not stored", id), Replay: map[string]any{"ops": h.Ops, "query": q}})
				}
			}
		}
		literalQueries(c, r, h, fsEng, ids, rowOf, jts, p, which)
		os.RemoveAll(fsDir)
		h.Env.Stop()
	}
}

type modelLeaf struct{ path, text string }

// modelLeaves: the text leaves of a stored row according to the Lean walk over an encoding/json parse of the
// row's bytes - nothing of the implementation's own walker is involved.
func modelLeaves(c *ctx, jt string) []modelLeaf {
	f := strings.Fields(c.m.Ask("walk " + jt))
	var out []modelLeaf
	i := 1
	for i+2 < len(f)+1 && i < len(f) {
		path, kind, tag := unhx(f[i]), f[i+1], f[i+2]
		i += 3
		text := ""
		if tag == "S" {
			text = unhx(f[i])
			i++
		}
		if kind == "L" && tag == "S" {
			out = append(out, modelLeaf{path, text})
		}
	}
	return out
}

// literalQueries: queries written from the stored literal of one leaf of one stored row (its path and text as
// the MODEL reads them): a token of the text under Token / FieldToken, the anchored quoted text under FieldRegex
// (as a bare condition root, under And, and as the same pattern on two fields in either order, alone or next to
// a bloom condition). The model's verdict is computed over the model's own leaf texts; a row the model says
// matches must be returned (C01) and a returned row must match (C02).
func literalQueries(c *ctx, r Rng, h *History, fsEng *bs.BloomSearchEngine, ids []int, rowOf map[int][]byte, jts map[int]string, p *pools, which string) {
	if len(ids) == 0 {
		return
	}
	texts := map[int][]string{}
	leavesOf := map[int][]modelLeaf{}
	for _, id := range ids {
		ls := modelLeaves(c, jts[id])
		leavesOf[id] = ls
		for _, l := range ls {
			texts[id] = append(texts[id], l.text)
		}
	}
	cond := func(f, pat string) bs.RegexExpression {
		return bs.RegexExpression{ExpressionType: bs.RegexExpressionCondition, Condition: &bs.RegexCondition{Field: f, Pattern: pat}}
	}
	for k := 0; k < 10; k++ {
		id := ids[r.IntN(len(ids))]
		ls := leavesOf[id]
		if len(ls) == 0 {
			continue
		}
		// prefer the unusual literals: empty strings and non-plain numbers
		lf := ls[r.IntN(len(ls))]
		for _, cand := range ls {
			if (cand.text == "" || strings.ContainsAny(cand.text, "eE+.")) && r.Chance(0.5) {
				lf = cand
			}
		}
		if !utf8.ValidString(lf.text) || lf.path == "" {
			continue
		}
		pat := "^" + regexp.QuoteMeta(lf.text) + "$"
		other := lf.path
		for t := 0; t < 8 && other == lf.path; t++ {
			other = p.path(r)
		}
		var qs []*bs.Query
		if tk := h.TM.fn(lf.text); len(tk) > 0 {
			w := tk[r.IntN(len(tk))]
			qs = append(qs, bs.NewQuery().FieldToken(lf.path, w).Build(), bs.NewQuery().Token(w).Build())
		}
		bare := cond(lf.path, pat)
		qs = append(qs, &bs.Query{Regex: &bs.RegexQuery{Expression: &bare}})
		qs = append(qs, bs.NewQuery().MatchRegex(bs.RegexAnd(bs.FieldRegex(lf.path, pat))).Build())
		if other != lf.path && other != "" {
			a, b := bs.FieldRegex(other, pat), bs.FieldRegex(lf.path, pat)
			if r.Chance(0.5) {
				a, b = b, a
			}
			qs = append(qs, bs.NewQuery().MatchRegex(bs.RegexOr(a, b)).Build())
			qs = append(qs, bs.NewQuery().Field(lf.path).MatchRegex(bs.RegexOr(a, b)).Build())
		}
		for qi, q := range qs {
			got := idsOf(h.Env.Query(q).Rows)
			gotFS := idsOf(RunQuery(fsEng, q).Rows)
			c.r.Case(true, fmt.Sprint("literal", len(h.Ops), id, lf.path, lf.text, qi))
			c.r.Hit("literal.query")
			for _, rid := range ids {
				mv := askMatchTexts(c, h.TM, q, texts[rid], jts[rid])
				if !mv.valid {
					c.r.Hit("literal.model-invalid")
					continue
				}
				if rid == id && !mv.match {
					c.r.Hit("literal.model-says-no")
				}
				replay := map[string]any{"ops": h.Ops, "row": string(rowOf[rid]), "query": q, "tokenizer": h.TM.name, "leaf_path": lf.path, "leaf_text": lf.text}
				if which == "C01" && mv.match && (got[rid] == 0 || gotFS[rid] == 0) {
					c.r.Add(Finding{Kind: "violation", Check: "e2e-false-negative", Detail: fmt.Sprintf("stored row %d matches a query written from its own stored literal (leaf %q = %q) but is not returned (memory-hosted %d, filesystem-hosted %d)", rid, lf.path, lf.text, got[rid], gotFS[rid]), Replay: replay})
				}
				if which == "C02" && !mv.match && (got[rid] > 0 || gotFS[rid] > 0) {
					c.r.Add(Finding{Kind: "violation", Check: "e2e-false-positive", Detail: fmt.Sprintf("row %d was returned for a query written from the literal of leaf %q = %q of row %d but does not satisfy it", rid, lf.path, lf.text, id), Replay: replay})
				}
			}
		}
	}
}
