package main

// C19: bounds checks vs the Lean model on arbitrary framing values, chunk planning, and a
// mutation fuzz of engine-written files (no panic, no out-of-bounds read, bounded allocation,
// never a row that was not written; exact answer or error when metadata is held by the MetaStore).

import (
	"bytes"
	"context"
	"encoding/binary"
	"encoding/json"
	"fmt"
	"hash/crc32"
	"math"
	"runtime"
	"strings"
	"time"

	bs "github.com/danthegoodman1/bloomsearch"
)

func init() { props["C19"] = runC19 }

func blockMetaTok(t *toks, b *bs.DataBlockMetadata) {
	t.n(b.RowDataOffset).n(b.RowDataSize).n(b.BloomFilterOffset).n(b.BloomFilterSize)
}

var frameEdges = []int{math.MinInt64, math.MinInt64 + 1, -1, 0, 1, 2, 7, 100, 1 << 31, 1 << 40, math.MaxInt64 - 1, math.MaxInt64}

func genFrame(r Rng, near []int) int {
	switch r.Pick(5) {
	case 0:
		return pick(r, frameEdges)
	case 1, 2:
		if len(near) > 0 {
			return pick(r, near) + r.IntN(5) - 2
		}
		return r.IntN(200)
	case 3:
		return r.IntN(300)
	default:
		return int(r.Uint64())
	}
}

func runC19(c *ctx) {
	c.r.Rule = "validate / validateFilterSection / planBlockFilterReads / the chunked region reader vs the Lean bounds model on arbitrary and boundary int64 framing values; " +
		"CRC-consistent re-footers with arbitrary field values through ReadFileMetadata and the read helpers under recover with an allocation meter; byte-level mutants (flip, burst, truncate, extend, splice) " +
		"of engine-written files through the read helpers and through queries with MemoryMetaStore-held metadata and with metadata re-read from the mutant. Non-trivial = the mutant/metadata differs from the original; distinct by content hash"
	if !c19ReversedSectionsChild(c) {
		return // the same layout would bring this process down too: report what the child showed
	}
	c19Validators(c)
	c19Chunks(c)
	c19Refooter(c)
	c19RefooterBoundaries(c)
	c19Mutants(c)
	c19CopiedHashless(c)
	c19MergeAfterCorruption(c)
}

func c19Validators(c *ctx) {
	r := NewRng(c.seed, 190)
	n := 6000 * c.scale
	for i := 0; i < n; i++ {
		limit := genFrame(r, []int{500})
		near := []int{0, limit, limit / 2}
		m := bs.FileMetadata{BlockFilterRegionOffset: genFrame(r, near), BlockFilterRegionSize: genFrame(r, near)}
		near = append(near, m.BlockFilterRegionOffset, m.BlockFilterRegionOffset+m.BlockFilterRegionSize)
		nb := r.IntN(4)
		for b := 0; b < nb; b++ {
			m.DataBlocks = append(m.DataBlocks, bs.DataBlockMetadata{RowDataOffset: genFrame(r, near), RowDataSize: genFrame(r, near), BloomFilterOffset: genFrame(r, near), BloomFilterSize: genFrame(r, near)})
		}
		if r.Chance(0.4) {
			// mostly-valid: start from a consistent layout, then perturb one field
			m = consistentLayout(r)
			limit = m.BlockFilterRegionOffset + m.BlockFilterRegionSize + r.IntN(3)
			if r.Chance(0.6) {
				perturb(r, &m, &limit)
			}
		}
		t := (&toks{}).add("vfile").n(limit).n(m.BlockFilterRegionOffset).n(m.BlockFilterRegionSize).n(len(m.DataBlocks))
		for b := range m.DataBlocks {
			blockMetaTok(t, &m.DataBlocks[b])
		}
		want := c.m.Ask(t.String())
		got := b2s(bs.VerifValidate(&m, int64(limit)) == nil)
		c.r.Case(true, t.String())
		c.r.Hit("validate.verdict." + got)
		if i < 2 {
			c.r.Sample(map[string]any{"check": "validate", "line": t.String(), "impl": got, "model": want})
		}
		if got != want {
			kind := "disagreement"
			if got == "1" {
				kind = "violation" // accepted metadata the exact model rejects: a reader would seek/allocate out of bounds
			}
			c.r.Add(Finding{Kind: kind, Check: "validate", Detail: fmt.Sprintf("FileMetadata.validate accepted=%s, Lean exact model %s", got, want), Replay: map[string]any{"metadata": m, "dataLimit": limit, "line": t.String()}})
		}
		// planBlockFilterReads = region sanity + validSection for every block
		ro, rs := m.BlockFilterRegionOffset, m.BlockFilterRegionSize
		_, _, _, err := bs.VerifPlanBlockFilterReads(m.DataBlocks, ro, rs)
		wantPlan := ro >= 0 && rs >= 0 && ro <= math.MaxInt64-rs
		if wantPlan {
			for b := range m.DataBlocks {
				st := (&toks{}).add("vsec").n(ro).n(ro + rs)
				blockMetaTok(st, &m.DataBlocks[b])
				if c.m.Ask(st.String()) != "1" {
					wantPlan = false
				}
			}
		}
		if (err == nil) != wantPlan {
			kind := "disagreement"
			if err == nil {
				kind = "violation"
			}
			c.r.Add(Finding{Kind: kind, Check: "planBlockFilterReads", Detail: fmt.Sprintf("planBlockFilterReads ok=%v, model %v", err == nil, wantPlan), Replay: map[string]any{"metadata": m}})
		}
	}
}

func consistentLayout(r Rng) bs.FileMetadata {
	var m bs.FileMetadata
	nb := 1 + r.IntN(4)
	off := 0
	var sizes []int
	for b := 0; b < nb; b++ {
		sz := r.IntN(60)
		m.DataBlocks = append(m.DataBlocks, bs.DataBlockMetadata{RowDataOffset: off, RowDataSize: sz})
		off += sz
		sizes = append(sizes, r.IntN(30))
	}
	m.BlockFilterRegionOffset = off
	so := off
	for b := range m.DataBlocks {
		m.DataBlocks[b].BloomFilterOffset = so
		m.DataBlocks[b].BloomFilterSize = sizes[b]
		so += sizes[b]
	}
	m.BlockFilterRegionSize = so - off
	return m
}

func perturb(r Rng, m *bs.FileMetadata, limit *int) {
	delta := pick(r, []int{-1, 1, -2, 2, 1 << 62, -(1 << 62), math.MaxInt64, math.MinInt64})
	fields := []*int{&m.BlockFilterRegionOffset, &m.BlockFilterRegionSize, limit}
	for b := range m.DataBlocks {
		fields = append(fields, &m.DataBlocks[b].RowDataOffset, &m.DataBlocks[b].RowDataSize, &m.DataBlocks[b].BloomFilterOffset, &m.DataBlocks[b].BloomFilterSize)
	}
	f := pick(r, fields)
	if r.Chance(0.5) {
		*f += delta // wraps like Go int arithmetic
	} else {
		*f = delta
	}
}

// c19Chunks: the chunked region reader over a big sparse file vs the Lean chunk model.
func c19Chunks(c *ctx) {
	r := NewRng(c.seed, 191)
	target := bs.VerifConstants()["blockFilterChunkTarget"]
	fileSize := 3*target + 1000
	file := make([]byte, fileSize)
	n := 60 * c.scale
	for i := 0; i < n; i++ {
		regionStart := r.IntN(1000)
		regionSize := fileSize - regionStart - r.IntN(100)
		nb := 1 + r.IntN(7)
		var blocks []bs.DataBlockMetadata
		pos := regionStart
		for b := 0; b < nb; b++ {
			gap := 0
			if r.Chance(0.3) {
				gap = r.IntN(target + 2000)
			}
			sz := pick(r, []int{0, 5, 100, 70000, target - 10, target, target + 5})
			if pos+gap+sz > regionStart+regionSize {
				sz, gap = 0, 0
			}
			blocks = append(blocks, bs.DataBlockMetadata{RowDataOffset: b, BloomFilterOffset: pos + gap, BloomFilterSize: sz})
			pos += gap + sz
		}
		if r.Chance(0.3) && nb > 1 {
			j := r.IntN(nb - 1)
			blocks[j], blocks[j+1] = blocks[j+1], blocks[j] // out-of-order sections
		}
		starts, lens, errs := bs.VerifChunkPlan(bytes.NewReader(file), blocks, regionStart, regionSize)
		if len(starts) != nb {
			c.r.Add(Finding{Kind: "disagreement", Check: "chunk-plan", Detail: fmt.Sprintf("plan rejected a consistent region: %v", errs), Replay: map[string]any{"blocks": blocks}})
			continue
		}
		// replay the cursor with the model: a block is served from the chunk in hand if held, else a new chunk is read
		curStart, curLen := int64(0), int64(-1)
		for b := 0; b < nb; b++ {
			c.r.Case(blocks[b].BloomFilterSize > 0, fmt.Sprint("chunk", i, b))
			if blocks[b].BloomFilterSize == 0 {
				continue
			}
			held := "none"
			if curLen >= 0 {
				ht := (&toks{}).add("held").add(fmt.Sprint(curStart), fmt.Sprint(curLen))
				blockMetaTok(ht, &blocks[b])
				held = c.m.Ask(ht.String())
			}
			if held == "none" {
				ct := (&toks{}).add("chunk").n(target).n(regionStart).n(regionStart + regionSize)
				blockMetaTok(ct, &blocks[b])
				ct.n(nb - b - 1)
				for j := b + 1; j < nb; j++ {
					blockMetaTok(ct, &blocks[j])
				}
				var s, e int64
				fmt.Sscan(c.m.Ask(ct.String()), &s, &e)
				curStart, curLen = s, e-s
				c.r.Hit("chunk.read")
			} else {
				c.r.Hit("chunk.held")
			}
			if starts[b] != curStart || int64(lens[b]) != curLen {
				c.r.Add(Finding{Kind: "disagreement", Check: "chunk-plan", Detail: fmt.Sprintf("block %d served from chunk [%d,+%d), Lean model [%d,+%d)", b, starts[b], lens[b], curStart, curLen), Replay: map[string]any{"blocks": blocks, "regionStart": regionStart, "regionSize": regionSize}})
				break
			}
			if int64(lens[b]) > int64(fileSize) || starts[b] < int64(regionStart) || starts[b]+int64(lens[b]) > int64(regionStart+regionSize) {
				c.r.Add(Finding{Kind: "violation", Check: "chunk-bounds", Detail: fmt.Sprintf("chunk [%d,+%d) leaves the region [%d,%d)", starts[b], lens[b], regionStart, regionStart+regionSize), Replay: map[string]any{"blocks": blocks}})
			}
		}
	}
}

func footerFor(metaJSON []byte, fileFilter []byte) []byte {
	var b bytes.Buffer
	b.Write(fileFilter)
	b.Write(metaJSON)
	var u [4]byte
	binary.LittleEndian.PutUint32(u[:], crc32.Checksum(metaJSON, crcTable))
	b.Write(u[:])
	binary.LittleEndian.PutUint32(u[:], uint32(len(metaJSON)))
	b.Write(u[:])
	binary.LittleEndian.PutUint32(u[:], bs.FileVersion)
	b.Write(u[:])
	b.WriteString(bs.MagicBytes)
	return b.Bytes()
}

// guarded runs f under recover and an allocation meter; returns panic value and bytes allocated.
func guarded(f func()) (pv any, alloc uint64) {
	var m0, m1 runtime.MemStats
	runtime.ReadMemStats(&m0)
	func() {
		defer func() { pv = recover() }()
		f()
	}()
	runtime.ReadMemStats(&m1)
	return pv, m1.TotalAlloc - m0.TotalAlloc
}

// c19Refooter: CRC-consistent metadata with arbitrary framing values.
func c19Refooter(c *ctx) {
	r := NewRng(c.seed, 192)
	h := NewHistory(r)
	h.Run(r, 10, c.r)
	layout, err := h.Layout()
	h.Env.Stop()
	if err != nil || len(layout) == 0 {
		c.r.Note("refooter: no base file")
		return
	}
	base := layout[0]
	for _, f := range layout {
		if len(f.Blocks) > len(base.Blocks) && !strings.HasPrefix(f.Ptr, "ext") {
			base = f
		}
	}
	data := base.Bytes
	meta0, _, err := bs.ReadFileMetadata(bytes.NewReader(data))
	if err != nil {
		c.r.Note("refooter: base unreadable")
		return
	}
	body := data[:meta0.BlockFilterRegionOffset+meta0.BlockFilterRegionSize]
	fileFilter, _ := bs.VerifEncodeFilterSection(&meta0.BloomFilters)
	n := 1500 * c.scale
	for i := 0; i < n; i++ {
		var generic map[string]any
		mj, _ := json.Marshal(struct {
			BloomFalsePositiveRate  float64
			BlockFilterRegionOffset int
			BlockFilterRegionSize   int
			FileFilterSectionSize   int
			DataBlocks              []bs.DataBlockMetadata
		}{meta0.BloomFalsePositiveRate, meta0.BlockFilterRegionOffset, meta0.BlockFilterRegionSize, len(fileFilter), meta0.DataBlocks})
		json.Unmarshal(mj, &generic)
		near := []int{0, len(body), meta0.BlockFilterRegionOffset, meta0.BlockFilterRegionSize, len(data)}
		mut := func(obj map[string]any, key string) { obj[key] = genFrame(r, near) }
		for k := 1 + r.IntN(2); k > 0; k-- {
			switch r.Pick(4) {
			case 0:
				mut(generic, pick(r, []string{"BlockFilterRegionOffset", "BlockFilterRegionSize", "FileFilterSectionSize"}))
			default:
				blocks := generic["DataBlocks"].([]any)
				if len(blocks) > 0 {
					mut(blocks[r.IntN(len(blocks))].(map[string]any), pick(r, []string{"RowDataOffset", "RowDataSize", "BloomFilterOffset", "BloomFilterSize"}))
				}
			}
		}
		mj2, _ := json.Marshal(generic)
		mutant := append(append([]byte(nil), body...), footerFor(mj2, fileFilter)...)
		c.r.Case(true, string(mj2))
		var md *bs.FileMetadata
		var size int64
		var rerr error
		pv, alloc := guarded(func() { md, size, rerr = bs.ReadFileMetadata(bytes.NewReader(mutant)) })
		budget := uint64(8*len(mutant) + 2<<20)
		if pv != nil {
			c.r.Add(Finding{Kind: "violation", Check: "refooter-panic", Detail: fmt.Sprintf("ReadFileMetadata panicked on CRC-consistent metadata: %v", pv), Replay: map[string]any{"metadata_json": string(mj2)}})
			continue
		}
		if alloc > budget {
			c.r.Add(Finding{Kind: "violation", Check: "refooter-alloc", Detail: fmt.Sprintf("ReadFileMetadata allocated %d bytes for a %d-byte file", alloc, len(mutant)), Replay: map[string]any{"metadata_json": string(mj2)}})
		}
		if rerr != nil {
			c.r.Hit("refooter.rejected")
			continue
		}
		c.r.Hit("refooter.accepted")
		_ = size
		// accepted: every extent must be in bounds, and the helpers must stay bounded
		limit := int64(len(mutant))
		for bi := range md.DataBlocks {
			b := md.DataBlocks[bi]
			if b.RowDataOffset < 0 || b.RowDataSize < 0 || int64(b.RowDataOffset)+int64(b.RowDataSize) > limit ||
				(b.BloomFilterSize != 0 && (b.BloomFilterOffset < 0 || b.BloomFilterSize < 0 || int64(b.BloomFilterOffset)+int64(b.BloomFilterSize) > limit)) {
				c.r.Add(Finding{Kind: "violation", Check: "refooter-out-of-bounds", Detail: fmt.Sprintf("accepted metadata declares an extent outside the %d-byte file: %+v", limit, b), Replay: map[string]any{"metadata_json": string(mj2)}})
				continue
			}
			pv, alloc := guarded(func() {
				bs.ReadDataBlockRowData(bytes.NewReader(mutant), &b)
				bs.ReadDataBlockBloomFilters(bytes.NewReader(mutant), b)
			})
			if pv != nil {
				c.r.Add(Finding{Kind: "violation", Check: "refooter-helper-panic", Detail: fmt.Sprintf("read helper panicked: %v", pv), Replay: map[string]any{"metadata_json": string(mj2)}})
			}
			if alloc > budget+uint64(2*max(b.UncompressedSize, 0)) {
				c.r.Add(Finding{Kind: "violation", Check: "refooter-helper-alloc", Detail: fmt.Sprintf("read helpers allocated %d bytes for a %d-byte file", alloc, len(mutant)), Replay: map[string]any{"metadata_json": string(mj2)}})
			}
		}
	}
}

func mutate(r Rng, data []byte, donor []byte) ([]byte, string) {
	out := append([]byte(nil), data...)
	switch r.Pick(6) {
	case 0:
		i := r.IntN(len(out))
		out[i] ^= 1 << uint(r.IntN(8))
		return out, fmt.Sprintf("bitflip@%d", i)
	case 1:
		i := r.IntN(len(out))
		n := 1 + r.IntN(16)
		for j := i; j < len(out) && j < i+n; j++ {
			out[j] = byte(r.IntN(256))
		}
		return out, fmt.Sprintf("burst@%d+%d", i, n)
	case 2:
		n := r.IntN(len(out))
		return out[:n], fmt.Sprintf("truncate@%d", n)
	case 3:
		n := 1 + r.IntN(40)
		ext := make([]byte, n)
		for j := range ext {
			ext[j] = byte(r.IntN(256))
		}
		return append(out, ext...), fmt.Sprintf("extend+%d", n)
	case 4:
		if len(donor) > 8 {
			i, j := r.IntN(len(out)), r.IntN(len(donor))
			n := 1 + r.IntN(min(64, len(donor)-j))
			copy(out[i:], donor[j:j+n])
			return out, fmt.Sprintf("splice@%d from donor@%d+%d", i, j, n)
		}
		fallthrough
	default:
		// footer-area flip (metadata JSON / lengths / version / magic)
		span := 200
		if r.Chance(0.5) {
			span = 24 // the fixed-width trailer: metadata hash, metadata length, version, magic
		}
		i := len(out) - 1 - r.IntN(min(len(out), span))
		out[i] ^= byte(1 + r.IntN(255))
		return out, fmt.Sprintf("tailflip@%d", i)
	}
}

// c19Mutants: byte-level mutants of engine-written files.
func c19Mutants(c *ctx) {
	r := NewRng(c.seed, 193)
	for hi := 0; hi < 3*c.scale; hi++ {
		h := NewHistory(r)
		h.Run(r, 10, c.r)
		layout, err := h.Layout()
		if err != nil || len(layout) == 0 {
			h.Env.Stop()
			continue
		}
		var rowBytes [][]byte
		written := map[string]bool{}
		for _, f := range layout {
			for _, b := range f.Blocks {
				for _, rb := range b.Rows {
					rowBytes = append(rowBytes, rb)
					// canonical form of a written row = what the engine's own materializer yields for the
					// intact bytes (gjson and encoding/json differ on duplicate keys: that is C03's finding, not C19's)
					v, _ := bs.VerifMaterializeRow(rb)
					k, _ := json.Marshal(v)
					written[string(k)] = true
				}
			}
		}
		p := buildPools(rowBytes, h.TM)
		var queries []*bs.Query
		var truth []string
		for qi := 0; qi < 6; qi++ {
			q := genQuery(r, p, false)
			queries = append(queries, q)
			truth = append(truth, fmt.Sprint(sortedIDs(h.Env.Query(q).Rows)))
		}
		orig := h.Env.Data.Published()
		nm := 120
		for mi := 0; mi < nm; mi++ {
			victim := pick(r, layout)
			for tries := 0; strings.HasPrefix(victim.Ptr, "ext") && tries < 20; tries++ {
				victim = pick(r, layout) // the property quantifies over engine-written files
			}
			if strings.HasPrefix(victim.Ptr, "ext") {
				continue
			}
			donor := pick(r, layout).Bytes
			mutant, what := mutate(r, victim.Bytes, donor)
			changed := !bytes.Equal(mutant, victim.Bytes)
			c.r.Case(changed, fmt.Sprint(hi, mi, what))
			c.r.Hit("mutant." + strings.SplitN(what, "@", 2)[0][:min(7, len(strings.SplitN(what, "@", 2)[0]))])
			// (0) the footer alone: nothing in a file's trailer may make the reader allocate beyond the file
			if pvm, allocm := guarded(func() { bs.ReadFileMetadata(bytes.NewReader(mutant)) }); pvm == nil && allocm > uint64(16*len(mutant)+(1<<20)) {
				c.r.Add(Finding{Kind: "violation", Check: "mutant-alloc", Detail: fmt.Sprintf("ReadFileMetadata allocated %d bytes for a %d-byte file (%s mutant)", allocm, len(mutant), what), Replay: map[string]any{"ops": h.Ops, "file": victim.Ptr, "mutation": what}})
			}
			// (1) read helpers
			pv, alloc := guarded(func() {
				md, _, err := bs.ReadFileMetadata(bytes.NewReader(mutant))
				if err != nil {
					return
				}
				for _, b := range md.DataBlocks {
					if data, err := bs.ReadDataBlockRowData(bytes.NewReader(mutant), &b); err == nil {
						sc := bs.NewBlockRowScanner(data)
						for {
							_, ok, err := sc.Next()
							if err != nil || !ok {
								break
							}
						}
					}
					bs.ReadDataBlockBloomFilters(bytes.NewReader(mutant), b)
				}
			})
			if pv != nil {
				c.r.Add(Finding{Kind: "violation", Check: "mutant-panic", Detail: fmt.Sprintf("read helpers panicked on a %s mutant: %v", what, pv), Replay: map[string]any{"ops": h.Ops, "file": victim.Ptr, "mutation": what}})
			}
			if alloc > uint64(64*len(mutant)+(8<<20)) {
				c.r.Hit("mutant.large-alloc")
			}
			// (2) query with MemoryMetaStore-held (original) metadata over the mutant bytes
			h.Env.Data.Put(victim.Ptr, mutant)
			for qi, q := range queries {
				var out QueryOut
				pv, _ := guarded(func() { out = h.Env.Query(q) })
				if pv != nil {
					c.r.Add(Finding{Kind: "violation", Check: "mutant-query-panic", Detail: fmt.Sprintf("query panicked on a %s mutant: %v", what, pv), Replay: map[string]any{"ops": h.Ops, "file": victim.Ptr, "mutation": what, "query": q}})
					continue
				}
				for _, row := range out.Rows {
					k, _ := json.Marshal(row)
					if !written[string(k)] {
						c.r.Add(Finding{Kind: "violation", Check: "mutant-wrong-row", Detail: "a query over corrupted data returned a row that was never written: " + trunc(string(k), 200), Replay: map[string]any{"ops": h.Ops, "file": victim.Ptr, "mutation": what, "query": q}})
					}
				}
				if out.Err == nil && fmt.Sprint(sortedIDs(out.Rows)) != truth[qi] {
					c.r.Add(Finding{Kind: "violation", Check: "mutant-silent-wrong-answer", Detail: fmt.Sprintf("query over a %s mutant returned a different answer with a nil error (metadata held by MemoryMetaStore)", what),
						Replay: map[string]any{"ops": h.Ops, "file": victim.Ptr, "mutation": what, "query": q, "expected_ids": truth[qi], "got_ids": fmt.Sprint(sortedIDs(out.Rows))}})
				}
				if out.Err != nil {
					c.r.Hit("mutant.query-error")
				} else {
					c.r.Hit("mutant.query-exact")
				}
			}
			h.Env.Data.Put(victim.Ptr, orig[victim.Ptr])
			// (3) metadata re-read from the mutant itself (what a directory-scanning MetaStore would do)
			if md, _, err := bs.ReadFileMetadata(bytes.NewReader(mutant)); err == nil {
				ms := bs.NewMemoryMetaStore()
				ms.Update(context.Background(), []bs.WriteOperation{{FileMetadata: md, FilePointerBytes: []byte("m")}}, nil)
				ds := NewMemStore()
				ds.Put("m", mutant)
				eng, _ := bs.NewBloomSearchEngine(h.Env.Cfg, ms, ds)
				for _, q := range queries[:2] {
					var out QueryOut
					pv, _ := guarded(func() { out = RunQuery(eng, q) })
					if pv != nil {
						c.r.Add(Finding{Kind: "violation", Check: "mutant-query-panic", Detail: fmt.Sprintf("query (re-read metadata) panicked on a %s mutant: %v", what, pv), Replay: map[string]any{"ops": h.Ops, "mutation": what}})
						continue
					}
					for _, row := range out.Rows {
						k, _ := json.Marshal(row)
						if !written[string(k)] {
							c.r.Add(Finding{Kind: "violation", Check: "mutant-wrong-row", Detail: "a query over a corrupted file (metadata re-read from it) returned a row that was never written: " + trunc(string(k), 200), Replay: map[string]any{"ops": h.Ops, "mutation": what, "query": q}})
						}
					}
				}
			}
		}
		h.Env.Stop()
	}
}

// c19CopiedHashless: a deterministic scenario — an external writer's block without a row data hash
// is copied by a merge; a bit flipped inside that block of the engine-written output must be
// detected (regression for a repaired defect, see known_findings.json "fixed").
func c19CopiedHashless(c *ctx) {
	cfg := bs.DefaultBloomSearchEngineConfig()
	cfg.RowDataCompression = bs.CompressionNone
	cfg.MaxRowGroupRows = 2
	cfg.PartitionFunc = partitionFunc("p")
	h := &History{Env: NewEnv(cfg), TM: tokModes[0], PartMode: "p", Rows: map[int]*StoredRow{}}
	defer h.Env.Stop()
	mk := func(id int, pid, msg string) *StoredRow {
		row := map[string]any{"_id": id, "p": pid, "msg": msg}
		b, _ := mustMarshal(row)
		return &StoredRow{ID: id, Go: row, Bytes: b, PID: pid, Vals: map[string]NumCase{}}
	}
	// external file: a block in partition "b" (pairs with the engine's block, so the files are grouped)
	// and a block in partition "zz" (alone in its merge key: copied verbatim); neither carries a hash
	h.nextID = 10
	h.writeExternal(map[string][]*StoredRow{"b": {mk(1, "b", "external row in b")}, "zz": {mk(2, "zz", "external row copied verbatim by the merge")}}, func() bool { return false }, c.r)
	h.Env.IngestWait([]map[string]any{{"_id": 3, "p": "b", "msg": "engine row"}})
	if _, err := h.Env.Eng.Merge(context.Background()); err != nil {
		c.r.Note("copied-hashless: merge failed: %v", err)
		return
	}
	layout, err := h.Layout()
	if err != nil {
		c.r.Note("copied-hashless: layout: %v", err)
		return
	}
	written := map[string]bool{}
	for _, f := range layout {
		for _, b := range f.Blocks {
			for _, rb := range b.Rows {
				v, _ := bs.VerifMaterializeRow(rb)
				k, _ := json.Marshal(v)
				written[string(k)] = true
			}
		}
	}
	for _, f := range layout {
		if strings.HasPrefix(f.Ptr, "ext") {
			continue
		}
		for _, b := range f.Blocks {
			if len(b.RowIDs) != 1 || b.RowIDs[0] != 2 {
				continue
			}
			c.r.Case(true, "copied-hashless "+f.Ptr)
			c.r.Hit("copied-hashless.blocks")
			for off := 6; off < b.Meta.RowDataSize; off += 5 {
				mutant := append([]byte(nil), f.Bytes...)
				mutant[b.Meta.RowDataOffset+off] ^= 0x01
				h.Env.Data.Put(f.Ptr, mutant)
				out := h.Env.Query(&bs.Query{})
				h.Env.Data.Put(f.Ptr, f.Bytes)
				for _, row := range out.Rows {
					k, _ := json.Marshal(row)
					if !written[string(k)] {
						c.r.Add(Finding{Kind: "violation", Check: "copied-hashless-block", Detail: "a bit flipped in a merge-copied block (source written without a row data hash) was returned as a row that was never written: " + trunc(string(k), 160),
							Replay: map[string]any{"ops": h.Ops, "file": f.Ptr, "block_offset": b.Meta.RowDataOffset, "flip_at": off, "has_hash": b.Meta.HasRowDataHash}})
						return
					}
				}
			}
		}
	}
}

// c19MergeAfterCorruption: a byte of a source block's row data is changed (inside a JSON string value when
// the block is uncompressed, so that the row still parses), then a merge rebuilds that block with others.
// The merge must fail or leave the damage detectable: afterwards no query may return a row that was never
// written, and a nil-error answer must be the full original answer.
func c19MergeAfterCorruption(c *ctx) {
	r := NewRng(c.seed, 197)
	for i := 0; i < 24*c.scale; i++ {
		cfg := bs.DefaultBloomSearchEngineConfig()
		cfg.RowDataCompression = pick(r, []bs.CompressionType{bs.CompressionNone, bs.CompressionNone, bs.CompressionSnappy, bs.CompressionZstd})
		cfg.PartitionFunc = partitionFunc("p")
		cfg.MaxBufferedTime = time.Hour
		cfg.MaxRowGroupRows = 100
		env := NewEnv(cfg)
		h := &History{Env: env, Rows: map[int]*StoredRow{}}
		nf := 2 + r.IntN(3)
		id := 0
		lone := r.IntN(nf) // this file also carries a block alone in its partition: a merge copies it verbatim
		for f := 0; f < nf; f++ {
			var rows []map[string]any
			for j := 0; j < 1+r.IntN(3); j++ {
				id++
				rows = append(rows, map[string]any{"_id": id, "p": "a", "word": fmt.Sprintf("bravo%04d", id)})
			}
			if f == lone {
				id++
				rows = append(rows, map[string]any{"_id": id, "p": "zz-lone", "word": fmt.Sprintf("bravo%04d", id)})
			}
			env.IngestWait(rows)
		}
		layout, err := h.Layout()
		if err != nil || len(layout) < 2 {
			env.Stop()
			continue
		}
		written := map[string]bool{}
		for _, f := range layout {
			for _, b := range f.Blocks {
				for _, rb := range b.Rows {
					v, _ := bs.VerifMaterializeRow(rb)
					k, _ := json.Marshal(v)
					written[string(k)] = true
				}
			}
		}
		victim := pick(r, layout)
		vb := victim.Blocks[r.IntN(len(victim.Blocks))]
		if r.Chance(0.5) {
			// aim at the block the merge will copy rather than rebuild
			for _, f := range layout {
				for _, b := range f.Blocks {
					if b.Meta.PartitionID == "zz-lone" {
						victim, vb = f, b
					}
				}
			}
		}
		mutant := append([]byte(nil), victim.Bytes...)
		what := ""
		if idx := bytes.Index(mutant[vb.Meta.RowDataOffset:vb.Meta.RowDataOffset+vb.Meta.RowDataSize], []byte("bravo")); cfg.RowDataCompression == bs.CompressionNone && idx >= 0 {
			pos := vb.Meta.RowDataOffset + idx + r.IntN(5)
			mutant[pos] = "XYZ01"[r.IntN(5)]
			what = fmt.Sprintf("letter inside a string value at %d", pos)
		} else {
			pos := vb.Meta.RowDataOffset + r.IntN(vb.Meta.RowDataSize)
			mutant[pos] ^= byte(1 << uint(r.IntN(8)))
			what = fmt.Sprintf("bit flip in row data at %d", pos)
		}
		env.Data.Put(victim.Ptr, mutant)
		_, merr := env.Eng.Merge(context.Background())
		out := env.Query(&bs.Query{})
		replay := map[string]any{"files": nf, "compression": string(cfg.RowDataCompression), "victim": victim.Ptr, "mutation": what, "merge_err": fmt.Sprint(merr), "query_err": fmt.Sprint(out.Err)}
		c.r.Case(true, fmt.Sprint("merge-after-corruption", i, what))
		c.r.Hit("merge-after-corruption." + map[bool]string{true: "merge-error", false: "merge-nil"}[merr != nil])
		for _, row := range out.Rows {
			k, _ := json.Marshal(row)
			if !written[string(k)] {
				c.r.Add(Finding{Kind: "violation", Check: "merge-launders-corruption", Detail: "after a merge over a corrupted source block a query returned a row that was never written: " + trunc(string(k), 160), Replay: replay})
			}
		}
		if out.Err == nil && len(out.Rows) != id {
			c.r.Add(Finding{Kind: "violation", Check: "merge-launders-corruption", Detail: fmt.Sprintf("after a merge over a corrupted source block a query returned %d of %d rows with a nil error", len(out.Rows), id), Replay: replay})
		}
		env.Stop()
	}
}

// c19RefooterBoundaries: the deterministic edge of the re-footer space. For one uncompressed engine-written
// file, (a) every block's filter section is re-declared with every size 0..8 at every offset of the filter
// region (tiny sections: smaller than, equal to and just above the section's own framing), and (b) every
// block is re-declared hashless (as an external writer may leave it) with its row data cut 1..8 bytes short,
// and with a row's length prefix raised by 1..8 in a hashless copy. The helpers and the row scanner must
// return errors or written rows - never panic, never a row that was not written.
func c19RefooterBoundaries(c *ctx) {
	cfg := bs.DefaultBloomSearchEngineConfig()
	cfg.PartitionFunc = partitionFunc("p")
	cfg.MaxBufferedTime = time.Hour
	cfg.RowDataCompression = bs.CompressionNone
	env := NewEnv(cfg)
	env.IngestWait([]map[string]any{{"_id": 1, "p": "a", "m": "one"}, {"_id": 2, "p": "b", "m": "two two"}, {"_id": 3, "p": "a", "m": "three"}, {"_id": 4, "p": "c", "m": "4"}})
	files, _ := AllFiles(env.Meta)
	pub := env.Data.Published()
	env.Stop()
	if len(files) != 1 {
		c.r.Note("refooter-boundaries: no base file")
		return
	}
	data := pub[string(files[0].PointerBytes)]
	meta0, _, err := bs.ReadFileMetadata(bytes.NewReader(data))
	if err != nil {
		c.r.Note("refooter-boundaries: base unreadable")
		return
	}
	written := map[string]bool{}
	for _, bm := range meta0.DataBlocks {
		rows, _ := bs.ReadDataBlockRowData(bytes.NewReader(data), &bm)
		sc := bs.NewBlockRowScanner(rows)
		for {
			row, ok, err := sc.Next()
			if err != nil || !ok {
				break
			}
			written[string(row)] = true
		}
	}
	body := data[:meta0.BlockFilterRegionOffset+meta0.BlockFilterRegionSize]
	fileFilter, _ := bs.VerifEncodeFilterSection(&meta0.BloomFilters)
	rebuild := func(body []byte, blocks []bs.DataBlockMetadata) []byte {
		mj, _ := json.Marshal(struct {
			BloomFalsePositiveRate  float64
			BlockFilterRegionOffset int
			BlockFilterRegionSize   int
			FileFilterSectionSize   int
			DataBlocks              []bs.DataBlockMetadata
		}{meta0.BloomFalsePositiveRate, meta0.BlockFilterRegionOffset, meta0.BlockFilterRegionSize, len(fileFilter), blocks})
		return append(append([]byte(nil), body...), footerFor(mj, fileFilter)...)
	}
	try := func(what string, mutant []byte, bi int, replay map[string]any) {
		c.r.Case(true, what)
		c.r.Hit("refooter-boundary." + strings.SplitN(what, " ", 2)[0])
		var md *bs.FileMetadata
		var rerr error
		if pv, _ := guarded(func() { md, _, rerr = bs.ReadFileMetadata(bytes.NewReader(mutant)) }); pv != nil {
			c.r.Add(Finding{Kind: "violation", Check: "refooter-panic", Detail: fmt.Sprintf("ReadFileMetadata panicked (%s): %v", what, pv), Replay: replay})
			return
		}
		if rerr != nil || bi >= len(md.DataBlocks) {
			return
		}
		b := md.DataBlocks[bi]
		var foreign string
		pv, _ := guarded(func() {
			if rows, err := bs.ReadDataBlockRowData(bytes.NewReader(mutant), &b); err == nil {
				sc := bs.NewBlockRowScanner(rows)
				for {
					row, ok, err := sc.Next()
					if err != nil || !ok {
						break
					}
					// with a checksum a returned row is a written row; a hashless block can only promise that
					// a row consists of bytes of the block's declared row data
					if (b.HasRowDataHash && !written[string(row)]) || !bytes.Contains(mutant[b.RowDataOffset:b.RowDataOffset+b.RowDataSize], row) {
						foreign = string(row)
					}
				}
			}
			bs.ReadDataBlockBloomFilters(bytes.NewReader(mutant), b)
		})
		if pv != nil {
			c.r.Add(Finding{Kind: "violation", Check: "refooter-helper-panic", Detail: fmt.Sprintf("a read helper / the row scanner panicked on CRC-consistent metadata (%s): %v", what, pv), Replay: replay})
		}
		if foreign != "" {
			c.r.Add(Finding{Kind: "violation", Check: "refooter-foreign-row", Detail: fmt.Sprintf("the row scanner returned a row that was never written / is not made of the block's declared row data (%s): %q", what, trunc(foreign, 120)), Replay: replay})
		}
	}
	// (c) a negative file filter section size (it moves the limit the other extents are checked against past the
	// end of the file) combined with a region / block that reaches as far beyond the file
	for _, neg := range []int{1, 1000, 64 << 20} {
		for variant := 0; variant < 3; variant++ {
			blocks := append([]bs.DataBlockMetadata(nil), meta0.DataBlocks...)
			regionSize := meta0.BlockFilterRegionSize
			last := len(blocks) - 1
			switch variant {
			case 0:
				regionSize += neg
			case 1:
				blocks[last].BloomFilterSize += neg
				regionSize += neg
			case 2:
				regionSize += neg
				blocks[last].HasRowDataHash, blocks[last].RowDataHash = false, 0
			}
			mj, _ := json.Marshal(struct {
				BloomFalsePositiveRate  float64
				BlockFilterRegionOffset int
				BlockFilterRegionSize   int
				FileFilterSectionSize   int
				DataBlocks              []bs.DataBlockMetadata
			}{meta0.BloomFalsePositiveRate, meta0.BlockFilterRegionOffset, regionSize, -neg, blocks})
			mutant := append(append([]byte(nil), body...), footerFor(mj, fileFilter)...)
			what := fmt.Sprintf("negative-file-filter-size FileFilterSectionSize=%d, region size %d (variant %d)", -neg, regionSize, variant)
			c.r.Case(true, what)
			c.r.Hit("refooter-boundary.negative-file-filter-size")
			var md *bs.FileMetadata
			var rerr error
			pv, alloc := guarded(func() { md, _, rerr = bs.ReadFileMetadata(bytes.NewReader(mutant)) })
			replay := map[string]any{"FileFilterSectionSize": -neg, "BlockFilterRegionSize": regionSize, "variant": variant, "file_bytes": len(mutant)}
			if pv != nil {
				c.r.Add(Finding{Kind: "violation", Check: "refooter-panic", Detail: fmt.Sprintf("ReadFileMetadata panicked (%s): %v", what, pv), Replay: replay})
				continue
			}
			if alloc > uint64(8*len(mutant)+2<<20) {
				c.r.Add(Finding{Kind: "violation", Check: "refooter-alloc", Detail: fmt.Sprintf("ReadFileMetadata allocated %d bytes for a %d-byte file (%s)", alloc, len(mutant), what), Replay: replay})
			}
			if rerr == nil && md != nil && md.BlockFilterRegionOffset+md.BlockFilterRegionSize > len(mutant) {
				c.r.Add(Finding{Kind: "violation", Check: "refooter-out-of-bounds", Detail: fmt.Sprintf("ReadFileMetadata accepted a %d-byte file whose metadata declares a block filter region ending at byte %d (%s)", len(mutant), md.BlockFilterRegionOffset+md.BlockFilterRegionSize, what), Replay: replay})
			}
		}
	}
	for bi := range meta0.DataBlocks {
		// (a) tiny filter sections everywhere in the region
		for size := 0; size <= 8; size++ {
			for off := meta0.BlockFilterRegionOffset; off+size <= meta0.BlockFilterRegionOffset+meta0.BlockFilterRegionSize; off++ {
				blocks := append([]bs.DataBlockMetadata(nil), meta0.DataBlocks...)
				blocks[bi].BloomFilterOffset, blocks[bi].BloomFilterSize = off, size
				try(fmt.Sprintf("tiny-section block %d: BloomFilterOffset=%d BloomFilterSize=%d", bi, off, size), rebuild(body, blocks), bi,
					map[string]any{"block": bi, "BloomFilterOffset": off, "BloomFilterSize": size})
			}
		}
		// (b) hashless block, row data cut short / a length prefix raised
		orig := meta0.DataBlocks[bi]
		for cut := 1; cut <= 8 && cut < orig.RowDataSize; cut++ {
			blocks := append([]bs.DataBlockMetadata(nil), meta0.DataBlocks...)
			blocks[bi].HasRowDataHash, blocks[bi].RowDataHash = false, 0
			blocks[bi].RowDataSize -= cut
			blocks[bi].UncompressedSize -= cut
			try(fmt.Sprintf("short-rowdata block %d: hashless, RowDataSize and UncompressedSize %d short", bi, cut), rebuild(body, blocks), bi,
				map[string]any{"block": bi, "cut": cut})
		}
		// positions of the length prefixes of this block
		rows, _ := bs.ReadDataBlockRowData(bytes.NewReader(data), &orig)
		pos := 0
		for pos+4 <= len(rows) {
			l := int(binary.LittleEndian.Uint32(rows[pos:]))
			for add := 1; add <= 8; add++ {
				b2 := append([]byte(nil), body...)
				binary.LittleEndian.PutUint32(b2[orig.RowDataOffset+pos:], uint32(l+add))
				blocks := append([]bs.DataBlockMetadata(nil), meta0.DataBlocks...)
				blocks[bi].HasRowDataHash, blocks[bi].RowDataHash = false, 0
				try(fmt.Sprintf("raised-prefix block %d: hashless, length prefix at %d raised from %d by %d", bi, pos, l, add), rebuild(b2, blocks), bi,
					map[string]any{"block": bi, "prefix_at": pos, "raised_by": add})
			}
			pos += 4 + l
		}
	}
}

// c19ReversedSectionsChild: a file whose filter sections lie in the region in the reverse order of its row data
// (legal for an external writer; CRC-valid, inside the region) is queried with bloom conditions in a process
// of its own: a panic in one of the engine's goroutines cannot be recovered by the caller, so the parent judges
// the child's exit. The queries must end with rows or an error - not with the process.
func c19ReversedSectionsChild(c *ctx) bool {
	ok, out := runChild("reversed-sections-query")
	c.r.Case(true, "reversed-sections-child")
	c.r.Hit("child.reversed-sections-query")
	if !ok {
		c.r.Add(Finding{Kind: "violation", Check: "query-crashes-process", Detail: "a bloom-conditioned query over a valid file whose filter sections are stored in reverse block order brought the process down: " + trunc(lastLines(out, 6), 600), Replay: map[string]any{"scenario": "harness child reversed-sections-query", "output": trunc(out, 3000)}})
	}
	return ok
}

func lastLines(s string, n int) string {
	ls := strings.Split(strings.TrimSpace(s), "\n")
	// the panic message is at the top of a Go crash dump
	for i, l := range ls {
		if strings.HasPrefix(l, "panic:") || strings.HasPrefix(l, "fatal error:") {
			return strings.Join(ls[i:min(i+n, len(ls))], " | ")
		}
	}
	if len(ls) > n {
		ls = ls[len(ls)-n:]
	}
	return strings.Join(ls, " | ")
}
