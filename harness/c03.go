package main

// C03: returned rows vs the JSON round trip of what was ingested (and vs the Lean delivered-value
// model), and independence of returned rows under concurrent queries with a poisoned buffer pool.

import (
	"bytes"
	"context"
	"encoding/json"
	"fmt"
	"reflect"
	"sort"
	"strconv"
	"strings"
	"sync"
	"time"

	bs "github.com/danthegoodman1/bloomsearch"
)

func init() { props["C03"] = runC03 }

// valueMatches walks the model's prefix-form value (tokens) against a Go value from the engine.
func valueMatches(tk []string, i *int, v any) bool {
	if *i >= len(tk) {
		return false
	}
	t := tk[*i]
	*i++
	switch t {
	case "n":
		return v == nil
	case "t":
		b, ok := v.(bool)
		return ok && b
	case "f":
		b, ok := v.(bool)
		return ok && !b
	case "d":
		raw := unhx(tk[*i])
		*i++
		f, ok := v.(float64)
		want, err := strconv.ParseFloat(raw, 64)
		return ok && (err == nil || strings.Contains(err.Error(), "range")) && (f == want)
	case "s":
		s := unhx(tk[*i])
		*i++
		g, ok := v.(string)
		return ok && g == s
	case "a":
		n, _ := strconv.Atoi(tk[*i])
		*i++
		arr, ok := v.([]any)
		okAll := ok && len(arr) == n
		for k := 0; k < n; k++ {
			var e any
			if okAll {
				e = arr[k]
			}
			if !valueMatches(tk, i, e) {
				okAll = false
			}
		}
		return okAll
	case "o":
		n, _ := strconv.Atoi(tk[*i])
		*i++
		m, ok := v.(map[string]any)
		okAll := ok && len(m) == n
		for k := 0; k < n; k++ {
			key := unhx(tk[*i])
			*i++
			var e any
			present := false
			if ok {
				e, present = m[key]
			}
			if !valueMatches(tk, i, e) || !present {
				okAll = false
			}
		}
		return okAll
	}
	return false
}

func hasDupKeys(data []byte) bool {
	dec := json.NewDecoder(strings.NewReader(string(data)))
	var walk func() bool
	walk = func() bool {
		tk, err := dec.Token()
		if err != nil {
			return false
		}
		if d, ok := tk.(json.Delim); ok {
			switch d {
			case '{':
				seen := map[string]bool{}
				dup := false
				for dec.More() {
					k, _ := dec.Token()
					ks, _ := k.(string)
					if seen[ks] {
						dup = true
					}
					seen[ks] = true
					if walk() {
						dup = true
					}
				}
				dec.Token()
				return dup
			case '[':
				dup := false
				for dec.More() {
					if walk() {
						dup = true
					}
				}
				dec.Token()
				return dup
			}
		}
		return false
	}
	return walk()
}

func deepMutate(v any) {
	switch x := v.(type) {
	case map[string]any:
		for k, e := range x {
			deepMutate(e)
			x[k] = "MUTATED"
		}
		x["__mut"] = 1
	case []any:
		for i, e := range x {
			deepMutate(e)
			x[i] = "MUTATED"
		}
	}
}

func runC03(c *ctx) {
	c.r.Rule = "every generated row (escapes, unicode, large/precise numbers, exponent forms, -0, raw JSON incl. duplicated keys) is ingested and read back by a match-all query; the delivered row is compared with " +
		"json.Unmarshal(json.Marshal(row)) and with the Lean delivered-value model (first binding wins); then 8 concurrent queries run with the scan-buffer pool poisoned on release, every returned row is deep-mutated and all rows are re-read. " +
		"Non-trivial = a row containing a nested value, a non-integer number or raw JSON; distinct by marshaled bytes"
	r := NewRng(c.seed, 300)
	// ---- (a) fidelity
	groups := 12 * c.scale
	for g := 0; g < groups; g++ {
		cfg := bs.DefaultBloomSearchEngineConfig()
		cfg.RowDataCompression = pick(r, []bs.CompressionType{bs.CompressionNone, bs.CompressionSnappy, bs.CompressionZstd})
		env := NewEnv(cfg)
		stored := map[int][]byte{}
		var batch []map[string]any
		for i := 0; i < 40; i++ {
			id := g*1000 + i
			row := genRow(r, id)
			rb, ok := mustMarshal(row)
			if !ok {
				continue
			}
			batch = append(batch, row)
			stored[id] = rb
		}
		// fixed rows whose TEXT contains what an escaper would produce or look for: a literal backslash followed
		// by u0026 / u003c / u003e, doubled backslashes, escapes inside raw JSON, keys with such text
		for j, row := range []map[string]any{
			{"q": "tom \\u0026 jerry", "lt": "a \\u003c b \\u003e c", "amp": "x & y < z > w"},
			{"body": "{\"a\":\"x \\u003c y\",\"b\":\"\\\\u0026\"}", "k\\u003e": 1, "bs": "\\\\", "u": "\\u00e9 \\ud83d"},
			{"raw": json.RawMessage("\"pre\\u0026post \\\\u003c \\u003e\""), "nested": map[string]any{"s": []any{"\\u0026", "&", "\\\\u0026"}}},
		} {
			id := g*1000 + 900 + j
			row["_id"] = id
			if rb, ok := mustMarshal(row); ok {
				batch = append(batch, row)
				stored[id] = rb
			}
		}
		if err := env.IngestWait(batch); err != nil {
			c.r.Add(Finding{Kind: "disagreement", Check: "c03-ingest", Detail: err.Error(), Replay: nil})
			env.Stop()
			continue
		}
		out := env.Query(&bs.Query{})
		if out.Err != nil {
			c.r.Add(Finding{Kind: "violation", Check: "c03-query", Detail: "match-all query failed: " + out.Err.Error(), Replay: nil})
		}
		for _, got := range out.Rows {
			idf, _ := got["_id"].(float64)
			rb := stored[int(idf)]
			if rb == nil {
				c.r.Add(Finding{Kind: "violation", Check: "c03-unknown-row", Detail: fmt.Sprintf("returned row with unknown _id %v", got["_id"]), Replay: nil})
				continue
			}
			var ref map[string]any
			if err := json.Unmarshal(rb, &ref); err != nil {
				continue // property quantifies over rows encoding/json can decode
			}
			nontrivial := strings.ContainsAny(string(rb), "[{.") && len(rb) > 20
			c.r.Case(nontrivial, string(rb))
			dup := hasDupKeys(rb)
			if !reflect.DeepEqual(got, ref) {
				key := ""
				if dup {
					key = "rawmessage-duplicate-key"
				}
				gj, _ := json.Marshal(got)
				rj, _ := json.Marshal(ref)
				c.r.Add(Finding{Kind: "violation", Check: "row-fidelity", Key: key, Detail: "returned row differs from the JSON round trip of the ingested row" + map[bool]string{true: " (the row repeats an object key: gjson keeps the first value, encoding/json the last)", false: ""}[dup],
					Replay: map[string]any{"stored": string(rb), "returned": string(gj), "round_trip": string(rj)}})
			}
			// model: delivered value = valueFirst
			var jt toks
			if err := jsonTok(&jt, rb); err != nil {
				continue
			}
			resp := strings.Fields(c.m.Ask("value first " + jt.String()))
			idx := 0
			if !valueMatches(resp, &idx, any(got)) {
				gj, _ := json.Marshal(got)
				c.r.Add(Finding{Kind: "disagreement", Check: "delivered-value", Detail: "returned row differs from the Lean delivered-value model (first binding wins)", Replay: map[string]any{"stored": string(rb), "returned": string(gj), "model": strings.Join(resp, " ")}})
			}
			if dup {
				c.r.Hit("c03.dup-key-rows")
			}
		}
		if len(out.Rows) != len(stored) {
			c.r.Add(Finding{Kind: "violation", Check: "c03-count", Detail: fmt.Sprintf("%d rows stored, %d returned", len(stored), len(out.Rows)), Replay: nil})
		}
		env.Stop()
	}
	// ---- deterministic reproducer of the recorded finding
	{
		env := NewEnv(bs.DefaultBloomSearchEngineConfig())
		raw := json.RawMessage(`{"a":1,"a":2}`)
		env.IngestWait([]map[string]any{{"_id": 1, "dup": raw}})
		out := env.Query(&bs.Query{})
		var ref map[string]any
		rb, _ := json.Marshal(map[string]any{"_id": 1, "dup": raw})
		json.Unmarshal(rb, &ref)
		if len(out.Rows) == 1 && !reflect.DeepEqual(out.Rows[0], ref) {
			gj, _ := json.Marshal(out.Rows[0])
			c.r.Add(Finding{Kind: "violation", Check: "row-fidelity", Key: "rawmessage-duplicate-key", Detail: "a row with a duplicated object key (via json.RawMessage) is returned with the first value; the JSON round trip keeps the last",
				Replay: map[string]any{"stored": string(rb), "returned": string(gj)}})
		}
		env.Stop()
	}
	// ---- (a2) byte-identical rows: each delivered row is its own value
	for g := 0; g < 4*c.scale; g++ {
		cfg := bs.DefaultBloomSearchEngineConfig()
		cfg.RowDataCompression = pick(r, []bs.CompressionType{bs.CompressionNone, bs.CompressionSnappy})
		env := NewEnv(cfg)
		var batch []map[string]any
		for i := 0; i < 2+r.IntN(4); i++ {
			if g%2 == 1 {
				// entry-less rows: the smallest stored bytes there are ("{}"), several of them
				batch = append(batch, map[string]any{})
			} else {
				batch = append(batch, map[string]any{"msg": "same line", "n": map[string]any{"k": []any{"v", 1}}})
			}
			if r.Chance(0.3) {
				batch = append(batch, map[string]any{"msg": "other", "i": i})
			}
		}
		env.IngestWait(batch)
		out := env.Query(&bs.Query{})
		var snaps []string
		for _, row := range out.Rows {
			k, _ := json.Marshal(row)
			snaps = append(snaps, string(k))
		}
		c.r.Case(true, fmt.Sprint("identical-rows", g, len(batch)))
		c.r.Hit("c03.identical-rows")
		for i := range out.Rows {
			deepMutate(out.Rows[i])
			out.Rows[i]["added-by-caller"] = i
			for j := i + 1; j < len(out.Rows); j++ {
				k, _ := json.Marshal(out.Rows[j])
				if string(k) != snaps[j] {
					c.r.Add(Finding{Kind: "violation", Check: "row-aliasing", Detail: fmt.Sprintf("mutating returned row %d changed returned row %d of the same result (byte-identical stored rows share one value): %s -> %s", i, j, trunc(snaps[j], 120), trunc(string(k), 120)), Replay: map[string]any{"rows": len(batch), "seed": c.seed}})
					i = len(out.Rows)
					break
				}
			}
		}
		// a later query is not affected by what the caller did to the rows of an earlier one
		sort.Strings(snaps)
		var again []string
		for _, row := range env.Query(&bs.Query{}).Rows {
			k, _ := json.Marshal(row)
			again = append(again, string(k))
		}
		sort.Strings(again)
		if fmt.Sprint(again) != fmt.Sprint(snaps) {
			c.r.Add(Finding{Kind: "violation", Check: "row-aliasing", Detail: fmt.Sprintf("after the caller mutated the rows of one query, a later query over the same store returns different rows: %s -> %s", trunc(fmt.Sprint(snaps), 160), trunc(fmt.Sprint(again), 160)), Replay: map[string]any{"rows": len(batch), "seed": c.seed, "empty_rows": g%2 == 1}})
		}
		env.Stop()
	}
	// ---- (b) independence under concurrency with a poisoned pool
	bs.VerifSetPoison(true)
	defer bs.VerifSetPoison(false)
	c03PoolDiscipline(c)
	for g := 0; g < 3*c.scale; g++ {
		cfg := bs.DefaultBloomSearchEngineConfig()
		cfg.RowDataCompression = pick(r, []bs.CompressionType{bs.CompressionNone, bs.CompressionSnappy, bs.CompressionZstd})
		if g == 0 {
			cfg.RowDataCompression = bs.CompressionNone // the first group always exercises the legacy metadata value
		}
		cfg.MaxBufferedRows = 5 + r.IntN(40)
		cfg.MaxQueryConcurrency = pick(r, []int{1, 2, 4})
		env := NewEnv(cfg)
		expect := map[int]string{}
		for b := 0; b < 8; b++ {
			var batch []map[string]any
			for i := 0; i < 30; i++ {
				id := g*10000 + b*100 + i
				row := map[string]any{"_id": id, "s": genString(r) + strings.Repeat("z", r.IntN(200)), "n": map[string]any{"k": []any{genString(r), i}}}
				if i%10 == 3 {
					// large rows (8 KiB .. 70 KiB, many keys): materialisation may take another path for them
					wide := map[string]any{}
					for k := 0; k < 24; k++ {
						wide[fmt.Sprintf("key_%d_%d", id, k)] = strings.Repeat(string(rune('a'+k)), 20)
					}
					row["wide"] = wide
					row["pad"] = strings.Repeat("p", pick(r, []int{8100, 8300, 12000, 33000, 70000}))
				}
				batch = append(batch, row)
			}
			env.IngestWait(batch)
		}
		if cfg.RowDataCompression == bs.CompressionNone && (g == 0 || r.Chance(0.6)) {
			// legacy metadata: files written before the compression field existed carry "" (read as none)
			files, _ := AllFiles(env.Meta)
			for _, f := range files {
				md := f.Metadata
				md.DataBlocks = append([]bs.DataBlockMetadata(nil), md.DataBlocks...)
				for i := range md.DataBlocks {
					md.DataBlocks[i].Compression = ""
				}
				env.Meta.Update(context.Background(), []bs.WriteOperation{{FileMetadata: &md, FilePointerBytes: f.PointerBytes}}, nil)
			}
			c.r.Hit("c03.legacy-empty-compression")
		}
		first := env.Query(&bs.Query{})
		for _, row := range first.Rows {
			k, _ := json.Marshal(row)
			expect[rowID(row)] = string(k)
		}
		if first.Err != nil || len(expect) != 240 {
			c.r.Add(Finding{Kind: "violation", Check: "row-aliasing", Detail: fmt.Sprintf("a single quiet query over 240 stored rows returned %d distinct ids (err %v) with scan-buffer poisoning on: rows were read from a buffer already handed back", len(expect), first.Err), Replay: map[string]any{"group": g, "seed": c.seed, "compression": string(cfg.RowDataCompression)}})
		}
		var wg sync.WaitGroup
		var mu sync.Mutex
		bad := 0
		var example string
		for q := 0; q < 8; q++ {
			wg.Add(1)
			go func() {
				defer wg.Done()
				res, err := env.Eng.Query(context.Background(), &bs.Query{})
				if err != nil {
					return
				}
				var rows []map[string]any
				for res.Next() {
					rows = append(rows, res.Row())
				}
				res.Close()
				// check, then mutate everything we were given
				for _, row := range rows {
					k, _ := json.Marshal(row)
					if expect[rowID(row)] != string(k) {
						mu.Lock()
						bad++
						example = string(k)
						mu.Unlock()
					}
				}
				for _, row := range rows {
					deepMutate(row)
				}
			}()
		}
		wg.Wait()
		// a later query still sees pristine rows
		later := env.Query(&bs.Query{})
		for _, row := range later.Rows {
			k, _ := json.Marshal(row)
			if expect[rowID(row)] != string(k) {
				bad++
				example = string(k)
			}
		}
		c.r.Case(true, fmt.Sprint("independence", g))
		c.r.Hit("c03.independence-runs")
		if bad > 0 {
			c.r.Add(Finding{Kind: "violation", Check: "row-aliasing", Detail: fmt.Sprintf("%d returned rows changed after other rows were mutated / scan buffers were recycled (poisoned): e.g. %s", bad, trunc(example, 200)), Replay: map[string]any{"group": g, "seed": c.seed}})
		}
		env.Stop()
	}
	if n := bs.VerifScanBufferDoublePuts(); n > 0 {
		c.r.Hit("c03.pool-double-puts-total")
	}
}

// rowID extracts _id; a row whose _id is missing or not a number (possible only when the row's bytes were
// overwritten) maps to -1, which no expectation holds.
func rowID(row map[string]any) int {
	if f, ok := row["_id"].(float64); ok {
		return int(f)
	}
	return -1
}

// c03PoolDiscipline (runs with buffer poisoning on): what the engine hands out must not live in a pooled scan
// buffer that is already back in the pool. (1) The public ReadDataBlockRowData on uncompressed, snappy and zstd
// blocks: the returned bytes are the block's rows (a slice of a buffer that was put back would be poisoned).
// (2) Queries whose filter pass needs several region reads (sections stored in reverse order) with the k-th read
// failing, merges, and queries again: no scan buffer is ever put back twice (two later scans would share it and
// deliver each other's rows).
func c03PoolDiscipline(c *ctx) {
	doubleBefore := bs.VerifScanBufferDoublePuts()
	for _, comp := range []bs.CompressionType{bs.CompressionNone, bs.CompressionSnappy, bs.CompressionZstd} {
		cfg := bs.DefaultBloomSearchEngineConfig()
		cfg.RowDataCompression = comp
		cfg.MaxBufferedTime = time.Hour
		cfg.PartitionFunc = partitionFunc("p")
		env := NewEnv(cfg)
		want := map[int]bool{}
		for f := 0; f < 2; f++ {
			var rows []map[string]any
			for i := 0; i < 40; i++ {
				id := f*100 + i + 1
				want[id] = true
				rows = append(rows, map[string]any{"_id": id, "p": fmt.Sprint("p", i%2), "pad": strings.Repeat("r", 40)})
			}
			env.IngestWait(rows)
		}
		check := func(stage string) {
			files, _ := AllFiles(env.Meta)
			pub := env.Data.Published()
			got := map[int]bool{}
			for _, f := range files {
				for _, bm := range f.Metadata.DataBlocks {
					data, err := bs.ReadDataBlockRowData(bytes.NewReader(pub[string(f.PointerBytes)]), &bm)
					if err != nil {
						c.r.Add(Finding{Kind: "violation", Check: "row-aliasing", Detail: fmt.Sprintf("%s: ReadDataBlockRowData of a healthy %s block failed with scan-buffer poisoning on: %v", stage, comp, err), Replay: map[string]any{"compression": string(comp)}})
						continue
					}
					// another pooled read in between, as any concurrent scan would do
					bs.ReadDataBlockBloomFilters(bytes.NewReader(pub[string(f.PointerBytes)]), bm)
					for _, id := range idsInBytes(data) {
						got[id] = true
					}
				}
			}
			c.r.Case(true, fmt.Sprint("pool-discipline ", comp, " ", stage))
			c.r.Hit("c03.pool-discipline")
			if len(got) != len(want) {
				c.r.Add(Finding{Kind: "violation", Check: "row-aliasing", Detail: fmt.Sprintf("%s: the row data returned by ReadDataBlockRowData for %s blocks holds %d of the %d stored rows once released scan buffers are poisoned: it points into a buffer that was already handed back", stage, comp, len(got), len(want)), Replay: map[string]any{"compression": string(comp)}})
			}
		}
		check("after flush")
		env.Eng.Merge(context.Background())
		check("after merge")
		env.Stop()
	}
	// (2) failing region reads with a chunk in hand
	env, _ := dirPop(2, 1, 9, 3)
	if _, _, ok := reverseSections(env); ok {
		for k := 1; k <= 8; k++ {
			eng := freshOver(env, "never")
			env.Data.SetFaults([]string{"read"}, k)
			if res, err := eng.Query(context.Background(), bs.NewQuery().Token("needle").Build()); err == nil {
				drainWatch(res, 10*time.Second)
				res.Close()
			}
			env.Data.ClearFaults()
		}
	}
	c.r.Hit("c03.pool-double-put-watch")
	if n := bs.VerifScanBufferDoublePuts() - doubleBefore; n > 0 {
		c.r.Add(Finding{Kind: "violation", Check: "row-aliasing", Detail: fmt.Sprintf("%d times a scan buffer was returned to the pool while it was already in it (queries whose k-th filter region read fails while a chunk is in hand): two later scans are handed the same memory and deliver each other's rows", n), Replay: map[string]any{"scenario": "sections in reverse order, read k = 1..8 fails"}})
	}
}
