package main

// C05, C07, C08, C09: randomised and scripted schedules of the real ingest/flush pipeline with
// instrumented stores; every recorded trace must be a run of the Lean pipeline LTS (T-trace), and
// implementation-level monitors check the properties themselves.

import (
	"context"
	"errors"
	"fmt"
	"strings"
	"sync"
	"time"

	bs "github.com/danthegoodman1/bloomsearch"
)

func init() {
	props["C05"] = func(c *ctx) { runPipeline(c, "C05") }
	props["C07"] = func(c *ctx) { runPipeline(c, "C07") }
	props["C08"] = func(c *ctx) { runPipeline(c, "C08") }
	props["C09"] = func(c *ctx) { runPipeline(c, "C09") }
}

type plScenario struct {
	Name        string
	IngestCap   int
	MaxRows     int
	Producers   int
	PerProducer int
	BeforeStart int    // batches accepted before Start
	Start       string // "normal" | "never"
	Store       string // "fast" | "slow" | "stall" | "faulty"
	Stop        string // "graceful" | "graceful-concurrent" | "deadline" | "deadline-late-afterfunc"
	Unbuffered  float64
	Abandoned   bool // with deadline stops: some unbuffered channels nobody reads
	ShortCtx    bool // producers call IngestRows with contexts that expire while the buffer is full (stalled store)
	LazyRecv    bool // some unbuffered channels get their receiver only after a delay (graceful stops only)
	Flushers    int
	Pattern     []string // scripted done-channel shape of the first batches: "lazy" (unbuffered, late receiver) | "unbuf" | "buf"
	BadCodec    bool     // a configuration that passes validation but whose compression writer cannot be created (zstd level 5-22): the actor refuses every batch with rows
}

type plRun struct {
	sc       plScenario
	batches  []*batch
	flushes  []*batch
	events   []recEvent
	store    *MemStore
	stopErr  error
	stopDur  time.Duration
	stopAt   time.Time // when Stop returned
	stopCall time.Time
	deadline time.Duration
	after    []error // IngestRows / Flush results after Stop returned
	trace    []string
	conv     *traceConv
	obs      *ackObserver
}

var errFlushHung = errors.New("Flush did not return within 8s")

func badRow() map[string]any { return map[string]any{"x": make(chan int)} }

func runPlScenario(r Rng, sc plScenario) *plRun {
	run := &plRun{sc: sc}
	rec := &recorder{}
	rec.install()
	defer uninstallHook()
	cfg := bs.DefaultBloomSearchEngineConfig()
	cfg.IngestBufferSize = sc.IngestCap
	cfg.MaxBufferedRows = sc.MaxRows
	cfg.MaxBufferedTime = time.Hour
	if r.Chance(0.3) {
		cfg.MaxBufferedTime = 20 * time.Millisecond // time-triggered flushes too
	}
	cfg.RowDataCompression = bs.CompressionNone
	if sc.BadCodec {
		cfg.RowDataCompression = bs.CompressionZstd
		cfg.ZstdCompressionLevel = 5 + r.IntN(18)
	}
	store := NewMemStore()
	run.store = store
	var g *gate
	switch sc.Store {
	case "slow":
		store.Gate = func(op, file string) {
			if op == "write" || op == "close" || op == "update" {
				time.Sleep(time.Duration(r.IntN(3)) * time.Millisecond)
			}
		}
	case "stall":
		k := 1 + r.IntN(4)
		n := 0
		var mu sync.Mutex
		g = newGate(func(op, file string) bool {
			if op != "create" && op != "write" && op != "close" && op != "update" {
				return false
			}
			mu.Lock()
			defer mu.Unlock()
			n++
			return n == k
		})
		store.Gate = g.hook
	case "faulty":
		store.SetFaults([]string{"create", "write", "close", "update"}, 2+r.IntN(5), 9+r.IntN(6))
	}
	meta := &FaultMeta{MetaStore: bs.NewMemoryMetaStore(), s: store}
	eng, err := bs.NewBloomSearchEngine(cfg, meta, store)
	if err != nil {
		fatal("engine: %v", err)
	}
	conv := newTraceConv()
	conv.cap = sc.IngestCap
	run.conv = conv
	var bmu sync.Mutex
	obs := newAckObserver()
	run.obs = obs
	go obs.loop()
	nextID := 0
	mkBatch := func() *batch {
		bmu.Lock()
		defer bmu.Unlock()
		nextID++
		b := &batch{id: nextID, chanCap: 1}
		switch k := r.Pick(10); {
		case k < 7:
			b.kind, b.nrows = "rows", 1+r.IntN(3)
		case k < 8:
			b.kind = "empty"
		default:
			b.kind, b.nrows = "bad", 1+r.IntN(2)
		}
		if r.Chance(sc.Unbuffered) {
			b.chanCap = 0
			if sc.Abandoned && r.Chance(0.5) {
				b.abandon = true
			} else if sc.LazyRecv && (r.Chance(0.6) || sc.Unbuffered >= 1) {
				b.lazy = time.Duration(5+r.IntN(35)) * time.Millisecond
			}
		}
		if i := nextID - 1; i < len(sc.Pattern) {
			b.kind, b.nrows, b.abandon, b.lazy, b.chanCap = "rows", 1, false, 0, 1
			switch sc.Pattern[i] {
			case "lazy":
				b.chanCap, b.lazy = 0, 40*time.Millisecond
			case "unbuf":
				b.chanCap = 0
			case "abandon": // unbuffered, nobody ever receives (deadline stops only)
				b.chanCap, b.abandon = 0, true
			case "lazy-empty": // the actor answers an empty batch itself
				b.kind, b.nrows, b.chanCap, b.lazy = "empty", 0, 0, 40*time.Millisecond
			case "lazy-bad": // ... and a batch with an unmarshalable row
				b.kind, b.nrows, b.chanCap, b.lazy = "bad", 1, 0, 40*time.Millisecond
			}
		}
		if sc.BadCodec && b.kind == "rows" {
			// well-formed rows the actor cannot buffer: refused like a batch with an unmarshalable row
			b.kind, b.codec = "bad", true
		}
		b.ch = make(chan error, b.chanCap)
		b.addr = bs.VerifChanID(b.ch)
		if b.kind == "bad" {
			conv.kinds[b.addr] = "bad"
		}
		run.batches = append(run.batches, b)
		return b
	}
	send := func(b *batch) {
		var rows []map[string]any
		for i := 0; i < b.nrows; i++ {
			rows = append(rows, map[string]any{"_id": b.id*100 + i, "v": "x"})
		}
		if b.kind == "bad" && !b.codec {
			rows[len(rows)-1] = badRow()
			if b.id%3 == 0 {
				rows[len(rows)-1] = nil // a nil row is refused like an unmarshalable one
			}
		}
		b.mu.Lock()
		b.tCall = time.Now()
		b.mu.Unlock()
		if !b.abandon {
			obs.register(b)
		}
		to := 3 * time.Second
		if sc.ShortCtx {
			to = time.Duration(10+r.IntN(25)) * time.Millisecond
		}
		ctx, cancel := context.WithTimeout(context.Background(), to)
		ret := eng.IngestRows(ctx, rows, b.ch)
		b.mu.Lock()
		b.ret = ret
		b.tRet = time.Now()
		b.returned = true
		b.mu.Unlock()
		cancel()
	}
	for i := 0; i < sc.BeforeStart; i++ {
		send(mkBatch())
	}
	if sc.Start == "normal" {
		eng.Start()
	}
	var prodWG sync.WaitGroup
	for p := 0; p < sc.Producers; p++ {
		prodWG.Add(1)
		go func() {
			defer prodWG.Done()
			for i := 0; i < sc.PerProducer; i++ {
				send(mkBatch())
			}
		}()
	}
	for f := 0; f < sc.Flushers; f++ {
		prodWG.Add(1)
		go func() {
			defer prodWG.Done()
			time.Sleep(time.Duration(r.IntN(5)) * time.Millisecond)
			fb := &batch{kind: "force"}
			ctx, cancel := context.WithTimeout(context.Background(), 3*time.Second)
			fb.tCall = time.Now()
			// Flush waits for its own acknowledgement whatever its context: under a watchdog, so that a Flush
			// that is never answered is a finding of this run and not the end of the check
			fret := make(chan error, 1)
			go func() { fret <- eng.Flush(ctx) }()
			select {
			case fb.ret = <-fret:
			case <-time.After(8 * time.Second):
				fb.ret = errFlushHung
			}
			fb.tRet = time.Now()
			if fb.ret == nil {
				obs.flushReturned(fb.tCall)
			}
			cancel()
			bmu.Lock()
			run.flushes = append(run.flushes, fb)
			bmu.Unlock()
		}()
	}
	doStop := func(ctx context.Context) {
		run.stopCall = time.Now()
		run.stopErr = eng.Stop(ctx)
		run.stopAt = time.Now()
		run.stopDur = run.stopAt.Sub(run.stopCall)
	}
	switch sc.Stop {
	case "graceful":
		if g != nil {
			d := 10 * time.Millisecond
			if sc.ShortCtx {
				d = 90 * time.Millisecond // long enough for blocked producers' contexts to expire
			}
			go func() { time.Sleep(d); g.release() }()
		}
		prodWG.Wait()
		ctx, cancel := context.WithTimeout(context.Background(), 20*time.Second)
		doStop(ctx)
		cancel()
	case "graceful-concurrent":
		time.Sleep(time.Duration(r.IntN(4)) * time.Millisecond)
		if g != nil {
			go func() { time.Sleep(5 * time.Millisecond); g.release() }()
		}
		ctx, cancel := context.WithTimeout(context.Background(), 20*time.Second)
		doStop(ctx)
		cancel()
		prodWG.Wait()
	case "deadline", "deadline-late-afterfunc", "deadline-very-late-afterfunc":
		if g != nil {
			g.waitBlocked(300 * time.Millisecond)
		}
		time.Sleep(time.Duration(2+r.IntN(6)) * time.Millisecond)
		run.deadline = 40 * time.Millisecond
		if sc.Stop == "deadline" {
			ctx, cancel := context.WithTimeout(context.Background(), run.deadline)
			doStop(ctx)
			cancel()
		} else if sc.Stop == "deadline-very-late-afterfunc" {
			// the context reports Done on time but runs AfterFunc callbacks long after: nothing Stop promises
			// by its deadline may hang on such a callback
			doStop(newLateAfterCtx(run.deadline, 1500*time.Millisecond))
		} else {
			doStop(newLateAfterCtx(run.deadline, 250*time.Millisecond))
		}
		if g != nil {
			g.release()
		}
		prodWG.Wait()
		time.Sleep(350 * time.Millisecond) // let the wound-down pipeline report
	}
	// after Stop returned: new work must be refused
	for i := 0; i < 2; i++ {
		ch := make(chan error, 1)
		ctx, cancel := context.WithTimeout(context.Background(), time.Second)
		run.after = append(run.after, eng.IngestRows(ctx, []map[string]any{{"late": i}}, ch))
		run.after = append(run.after, eng.Flush(ctx))
		cancel()
	}
	time.Sleep(30 * time.Millisecond)
	obs.stop()
	run.events = rec.snapshot()
	run.trace = conv.convert(run.events)
	return run
}

func genPlScenario(r Rng, which string) plScenario {
	sc := plScenario{IngestCap: 1 + r.IntN(4), MaxRows: 1 + r.IntN(4), Producers: 1 + r.IntN(4), PerProducer: 1 + r.IntN(6),
		Start: "normal", Store: pick(r, []string{"fast", "fast", "slow", "stall", "faulty"}), Stop: pick(r, []string{"graceful", "graceful", "graceful-concurrent"}),
		Unbuffered: pick(r, []float64{0, 0, 0.3}), Flushers: r.IntN(3)}
	if r.Chance(0.25) {
		sc.BeforeStart = 1 + r.IntN(sc.IngestCap)
	}
	if which == "C08" && r.Chance(0.5) || which == "C05" && r.Chance(0.3) || r.Chance(0.15) {
		sc.Stop = "deadline"
		sc.Store = "stall"
		sc.Abandoned = r.Chance(0.5)
		if sc.Abandoned {
			sc.Unbuffered = 0.4
		}
	}
	if sc.Store == "stall" && sc.Stop == "graceful" && r.Chance(0.5) {
		sc.ShortCtx = true
		sc.IngestCap = 1 + r.IntN(2)
		sc.MaxRows = 1
		sc.Producers = 3 + r.IntN(2)
		sc.PerProducer = 3 + r.IntN(4)
	}
	if which == "C07" && sc.Stop != "deadline" && r.Chance(0.5) {
		sc.LazyRecv = true
		sc.Unbuffered = 0.4
	}
	if r.Chance(0.08) {
		sc.BadCodec = true
	}
	sc.Name = fmt.Sprintf("%s/%s/cap%d/rows%d/p%dx%d/f%d/pre%d", sc.Stop, sc.Store, sc.IngestCap, sc.MaxRows, sc.Producers, sc.PerProducer, sc.Flushers, sc.BeforeStart)
	return sc
}

func (run *plRun) replay() map[string]any {
	var bs []string
	for _, b := range run.batches {
		bs = append(bs, fmt.Sprintf("batch%d %s rows=%d cap=%d abandoned=%v ret=%v got=%v", b.id, b.kind, b.nrows, b.chanCap, b.abandon, b.ret, b.values()))
	}
	return map[string]any{"scenario": run.sc, "stop_err": fmt.Sprint(run.stopErr), "stop_ms": run.stopDur.Milliseconds(), "batches": bs, "trace": joinTrace(run.trace)}
}

// checkRun applies T-trace and the monitors of `which`.
func checkRun(c *ctx, run *plRun, which string) {
	sc := run.sc
	key := joinTrace(run.trace)
	accepted := 0
	for _, b := range run.batches {
		if b.ret == nil {
			accepted++
		}
	}
	c.r.Case(accepted > 0, key)
	for _, fb := range run.flushes {
		if fb.ret == errFlushHung {
			c.r.Add(Finding{Kind: "violation", Check: "unanswered-flush", Detail: "a Flush call did not return within 8s: the acknowledgement of its flush request was never delivered", Replay: run.replay()})
			break
		}
	}
	c.r.Hit("pipeline.stop." + sc.Stop + "." + map[bool]string{true: "nil", false: "err"}[run.stopErr == nil])
	c.r.Hit("pipeline.store." + sc.Store)

	// ---- T-trace: the recorded trace must be a run of the Lean LTS
	resp := c.m.Ask(fmt.Sprintf("pl %d %d %d %s", sc.IngestCap, sc.MaxRows, len(run.trace), key))
	c.r.Hit("trace.events." + fmt.Sprint(min(len(run.trace)/20*20, 200)))
	modelAns := map[int]bool{}
	modelHas := map[int]bool{}
	if !strings.HasPrefix(resp, "ok ") {
		idx := 0
		fmt.Sscanf(resp, "reject %d", &idx)
		ev := ""
		if idx < len(run.trace) {
			ev = run.trace[idx]
		}
		c.r.Add(Finding{Kind: "disagreement", Check: "pipeline-trace", Detail: fmt.Sprintf("recorded trace is not a run of the Lean pipeline LTS: event #%d (%s) is not enabled (%s)", idx, ev, resp), Replay: run.replay()})
	} else {
		f := strings.Fields(resp)
		// ok unanswered n ids... answered m id:ok... committed k ids...
		i := 2
		n := 0
		fmt.Sscan(f[i], &n)
		i += 1 + n
		i++ // "answered"
		m := 0
		fmt.Sscan(f[i], &m)
		i++
		for k := 0; k < m; k++ {
			var id, ok int
			fmt.Sscanf(f[i+k], "%d:%d", &id, &ok)
			modelAns[id] = ok == 1
			modelHas[id] = true
		}
		for _, b := range run.batches {
			id, seen := run.conv.idOf[b.addr]
			vals := b.values()
			if b.abandon || !seen {
				continue
			}
			if len(vals) == 1 && (!modelHas[id] || modelAns[id] != (vals[0] == nil)) {
				c.r.Add(Finding{Kind: "disagreement", Check: "pipeline-answers", Detail: fmt.Sprintf("batch %d received %v; the model run answered=%v nil=%v", b.id, vals[0], modelHas[id], modelAns[id]), Replay: run.replay()})
			}
		}
	}

	stoppedNil := run.stopErr == nil && sc.Stop != ""
	// ---- C05: answered exactly once after a graceful stop; never twice
	if which == "C05" || which == "C08" {
		for _, b := range run.batches {
			vals := b.values()
			if len(vals) > 1 {
				c.r.Add(Finding{Kind: "violation", Check: "answered-twice", Detail: fmt.Sprintf("batch %d (%s) received %d values on its done channel", b.id, b.kind, len(vals)), Replay: run.replay()})
			}
			if b.ret != nil && len(vals) > 0 {
				c.r.Add(Finding{Kind: "violation", Check: "answered-unaccepted", Detail: fmt.Sprintf("batch %d was refused (%v) but its done channel received a value", b.id, b.ret), Replay: run.replay()})
			}
			if stoppedNil && b.ret == nil && !b.abandon && len(vals) == 0 {
				key := ""
				if sc.Start == "never" {
					key = "never-started-stop-drops-batches"
				}
				c.r.Add(Finding{Kind: "violation", Check: "unanswered-after-graceful-stop", Key: key, Detail: fmt.Sprintf("Stop returned nil but accepted batch %d (%s, start=%s) was never answered", b.id, b.kind, sc.Start), Replay: run.replay()})
			}
		}
		for _, fb := range run.flushes {
			_ = fb // Flush returns its own answer; nothing is left pending by construction
		}
	}
	// ---- C05, "or the caller keeps receiving": after a Stop that ran into its deadline, every accepted batch
	// whose receiver is live still gets its one answer once the pipeline has wound down
	if which == "C05" && run.stopErr != nil {
		for _, b := range run.batches {
			if b.ret == nil && !b.abandon && len(b.values()) == 0 {
				c.r.Add(Finding{Kind: "violation", Check: "silent-waiter-after-deadline", Detail: fmt.Sprintf("Stop returned %v; accepted batch %d (%s) whose caller keeps receiving was never answered", run.stopErr, b.id, b.kind), Replay: run.replay()})
			}
		}
	}
	// ---- C07: order. The observations were made exactly, at the moment each nil answer was received /
	// Flush returned (see ackObserver): no wall-clock comparison of goroutines is involved.
	if which == "C07" {
		for _, v := range run.obs.violations() {
			c.r.Add(Finding{Kind: "violation", Check: v.check, Detail: v.detail, Replay: run.replay()})
		}
	}
	// ---- C08
	if which == "C08" {
		for i, err := range run.after {
			if !isStopped(err) {
				c.r.Add(Finding{Kind: "violation", Check: "accept-after-stop", Detail: fmt.Sprintf("call #%d after Stop returned gave %v, want ErrEngineStopped", i, err), Replay: run.replay()})
			}
		}
		if run.stopErr != nil {
			// no flush may begin store work after Stop returned the deadline error
			seenRet := false
			for _, e := range run.events {
				if e.Kind == "stop_ret" && e.Err {
					seenRet = true
				}
				if seenRet && e.Kind == "flush_begin" {
					c.r.Add(Finding{Kind: "violation", Check: "store-work-after-deadline", Key: keyIf(sc.Stop == "deadline-late-afterfunc", "late-afterfunc-flush-after-stop"),
						Detail: "a flush request began store work after Stop had returned its deadline error", Replay: run.replay()})
					break
				}
			}
			for _, call := range run.store.Log() {
				_ = call
			}
			// every waiter that can still receive got an answer, and only a flush begun before the deadline may say nil
			for _, b := range run.batches {
				vals := b.values()
				if b.ret == nil && !b.abandon && len(vals) == 0 {
					c.r.Add(Finding{Kind: "violation", Check: "silent-waiter-after-deadline", Detail: fmt.Sprintf("Stop returned %v; accepted batch %d (%s) with a live receiver got silence", run.stopErr, b.id, b.kind), Replay: run.replay()})
				}
			}
			limit := 4*run.deadline + 450*time.Millisecond // scheduling slack of a loaded machine; an overrun that matters is unbounded or a second and more
			if run.stopDur > limit {
				c.r.Add(Finding{Kind: "violation", Check: "stop-deadline-overrun", Detail: fmt.Sprintf("Stop with a %v deadline took %v (limit with slack %v)", run.deadline, run.stopDur, limit), Replay: run.replay()})
			}
		}
	}
	// ---- C09: backlog bound from the raw events
	if which == "C09" {
		backlog, maxBacklog := 0, 0
		for _, e := range run.events {
			switch e.Kind {
			case "accepted":
				backlog++
			case "actor_ack":
				backlog--
			case "flush_done", "flush_abandon", "enqueue_abandoned":
				backlog -= len(e.Chans)
			}
			maxBacklog = max(maxBacklog, backlog)
		}
		bound := sc.IngestCap + 4*sc.MaxRows
		c.r.Hit(fmt.Sprintf("backlog.max.%d", min(maxBacklog, 20)))
		// the same bound at the API: batches IngestRows accepted (returned nil) and never answered
		silent := 0
		for _, b := range run.batches {
			if b.ret == nil && !b.abandon && len(b.values()) == 0 {
				silent++
			}
		}
		if run.stopErr == nil && silent > 0 {
			c.r.Add(Finding{Kind: "violation", Check: "accepted-without-queueing", Detail: fmt.Sprintf("IngestRows returned nil for %d batches that were never answered although Stop returned nil: they were 'accepted' beyond the bounded backlog (not queued at all)", silent), Replay: run.replay()})
		}
		if maxBacklog > bound {
			c.r.Add(Finding{Kind: "violation", Check: "backlog-bound", Detail: fmt.Sprintf("%d accepted batches were unanswered at once; bound IngestBufferSize + 4*MaxBufferedRows = %d", maxBacklog, bound), Replay: run.replay()})
		}
	}
}

func runPipeline(c *ctx, which string) {
	c.r.Rule = "randomised schedules of the real pipeline (1-4 producers, Flush callers, batches accepted before Start, rows/empty/unmarshalable batches, buffered and unbuffered done channels, fast/slow/stalled/failing stores, " +
		"graceful and deadline Stops incl. a context whose AfterFunc runs late) plus scripted corner scenarios; each recorded hook-event trace is validated against the Lean pipeline LTS and the property monitors run on the implementation. " +
		"Non-trivial = at least one batch accepted; distinct by normalised trace"
	r := NewRng(c.seed, 500)
	// scripted corners first
	scripted := []plScenario{
		{Name: "never-started-graceful", IngestCap: 3, MaxRows: 2, Producers: 1, PerProducer: 2, Start: "never", Store: "fast", Stop: "graceful"},
		{Name: "never-started-lazy-receivers", IngestCap: 5, MaxRows: 2, Producers: 1, PerProducer: 4, Start: "never", Store: "fast", Stop: "graceful", Unbuffered: 1, LazyRecv: true},
		{Name: "never-started-very-late-afterfunc", IngestCap: 5, MaxRows: 2, Producers: 1, PerProducer: 5, Start: "never", Store: "fast", Stop: "deadline-very-late-afterfunc", Unbuffered: 0.5, Abandoned: true},
		{Name: "very-late-afterfunc", IngestCap: 4, MaxRows: 1, Producers: 1, PerProducer: 4, Start: "normal", Store: "stall", Stop: "deadline-very-late-afterfunc", Unbuffered: 0.4, Abandoned: true},
		{Name: "lazy-first-waiter", IngestCap: 6, MaxRows: 50, Producers: 1, PerProducer: 4, Start: "normal", Store: "fast", Stop: "graceful", Flushers: 1, Pattern: []string{"lazy", "buf", "lazy", "buf"}},
		{Name: "lazy-first-waiter-at-stop", IngestCap: 6, MaxRows: 50, Producers: 1, PerProducer: 3, Start: "normal", Store: "fast", Stop: "graceful", Pattern: []string{"lazy", "buf", "buf"}},
		{Name: "lazy-self-answered-at-stop", IngestCap: 6, MaxRows: 50, Producers: 1, PerProducer: 2, Start: "normal", Store: "fast", Stop: "graceful", Pattern: []string{"lazy-empty", "lazy-bad"}},
		{Name: "lazy-self-answered-at-stop-2", IngestCap: 6, MaxRows: 50, Producers: 1, PerProducer: 3, Start: "normal", Store: "fast", Stop: "graceful", Pattern: []string{"lazy-bad", "buf", "lazy-empty"}},
		{Name: "abandoned-first-waiter-deadline", IngestCap: 6, MaxRows: 3, Producers: 1, PerProducer: 3, Start: "normal", Store: "stall", Stop: "deadline", Abandoned: true, Pattern: []string{"abandon", "buf", "buf"}},
		{Name: "abandoned-middle-waiter-deadline", IngestCap: 6, MaxRows: 4, Producers: 1, PerProducer: 4, Start: "normal", Store: "stall", Stop: "deadline", Abandoned: true, Pattern: []string{"buf", "abandon", "unbuf", "buf"}},
		{Name: "unusable-codec", IngestCap: 4, MaxRows: 2, Producers: 1, PerProducer: 5, Start: "normal", Store: "fast", Stop: "graceful", Flushers: 2, BadCodec: true},
		{Name: "unusable-codec-lazy", IngestCap: 4, MaxRows: 50, Producers: 2, PerProducer: 3, Start: "normal", Store: "fast", Stop: "graceful", Flushers: 1, BadCodec: true, Unbuffered: 0.5, LazyRecv: true},
		{Name: "before-start", IngestCap: 3, MaxRows: 2, Producers: 2, PerProducer: 3, BeforeStart: 3, Start: "normal", Store: "fast", Stop: "graceful"},
		{Name: "late-afterfunc", IngestCap: 4, MaxRows: 1, Producers: 1, PerProducer: 4, Start: "normal", Store: "stall", Stop: "deadline-late-afterfunc"},
		{Name: "deadline-wedged", IngestCap: 2, MaxRows: 1, Producers: 2, PerProducer: 4, Start: "normal", Store: "stall", Stop: "deadline", Unbuffered: 0.4, Abandoned: true},
	}
	for _, sc := range scripted {
		run := runPlScenario(r, sc)
		checkRun(c, run, which)
		if len(c.r.Samples) < 2 {
			c.r.Sample(map[string]any{"scenario": sc.Name, "trace": trunc(joinTrace(run.trace), 400)})
		}
	}
	if which == "C05" || which == "C08" {
		for i := 0; i < 3; i++ {
			ingestRacesStop(c, i)
		}
	}
	if which == "C05" || which == "C06" {
		faultAtEveryFlushCall(c)
	}
	if which == "C07" {
		for i := 0; i < 12*c.scale; i++ {
			ackImpliesVisible(c, r, i)
		}
	}
	if which == "C09" {
		for i := 0; i < 2*c.scale; i++ {
			trickleAgainstStalledStore(c, r, i)
		}
		unreadAcksBackpressure(c)
		for i := 0; i < 8*c.scale; i++ {
			floodWithOneTightLimit(c, r, i)
		}
	}
	n := 60 * c.scale
	for i := 0; i < n; i++ {
		sc := genPlScenario(r, which)
		run := runPlScenario(r, sc)
		checkRun(c, run, which)
	}
}

// ackObserver decides "answered before" without comparing clocks of different goroutines wherever Go lets
// it. Buffered done channels are drained by one polling goroutine: receiving a value, marking the batch
// answered and running the order check happen under one mutex, and a batch counts as answered iff its value
// was received or sits in its channel's buffer - exact. Unbuffered channels need a receiver that is always
// parked (the engine's send gives up when its context is done and nobody is receiving), so each has its own
// goroutine; between the completion of such a receive and its marking there is an unavoidable window, so an
// unbuffered batch found unanswered is given a grace period (ackGrace) before it counts.
type ackObserver struct {
	mu      sync.Mutex
	batches []*batch
	viol    []ackViolation
	pending []ackPending
	quit    chan struct{}
	done    chan struct{}
	wg      sync.WaitGroup
}

const ackGrace = 250 * time.Millisecond

type ackViolation struct{ check, detail string }

type ackPending struct {
	check, what string
	a           *batch
	at          time.Time
}

func newAckObserver() *ackObserver {
	return &ackObserver{quit: make(chan struct{}), done: make(chan struct{})}
}

func (o *ackObserver) register(b *batch) {
	o.mu.Lock()
	o.batches = append(o.batches, b)
	o.mu.Unlock()
	if b.chanCap == 0 {
		o.wg.Add(1)
		go func() {
			defer o.wg.Done()
			if b.lazy > 0 {
				// until this receiver starts, the unbuffered channel provably has not been answered
				select {
				case <-time.After(b.lazy):
				case <-o.quit:
					return
				}
			}
			o.mu.Lock()
			b.mu.Lock()
			b.recvStarted = true
			b.mu.Unlock()
			o.mu.Unlock()
			for {
				select {
				case v := <-b.ch:
					t := time.Now()
					o.mu.Lock()
					o.record(b, v, t)
					o.mu.Unlock()
				case <-o.quit:
					return
				}
			}
		}()
	}
}

// answered: caller holds o.mu.
func answered(a *batch) bool {
	a.mu.Lock()
	n := len(a.got)
	a.mu.Unlock()
	return n > 0 || len(a.ch) > 0
}

// checkBefore examines the non-empty batches whose IngestRows returned nil before t: a buffered one that is
// not answered is a violation now; an unbuffered one is re-examined after the grace period. Caller holds o.mu.
func (o *ackObserver) checkBefore(t time.Time, except *batch, check, what string) {
	var un []int
	for _, a := range o.batches {
		if a == except || a.kind == "empty" {
			continue
		}
		a.mu.Lock()
		before := a.returned && a.ret == nil && a.tRet.Before(t)
		a.mu.Unlock()
		if !before || answered(a) {
			continue
		}
		a.mu.Lock()
		started := a.recvStarted
		a.mu.Unlock()
		if a.chanCap == 0 && started {
			o.pending = append(o.pending, ackPending{check, what, a, time.Now()})
		} else {
			un = append(un, a.id)
		}
	}
	if len(un) > 0 {
		o.viol = append(o.viol, ackViolation{check, fmt.Sprintf("%s while batches %v, accepted earlier, had not been answered", what, un)})
	}
}

// record marks one received value and runs the order check. Caller holds o.mu.
func (o *ackObserver) record(b *batch, v error, at time.Time) {
	b.mu.Lock()
	b.got = append(b.got, v)
	b.gotAt = append(b.gotAt, at)
	first := len(b.got) == 1
	tCall := b.tCall
	b.mu.Unlock()
	if v == nil && first && b.kind != "empty" {
		o.checkBefore(tCall, b, "ack-order", fmt.Sprintf("batch %d received nil", b.id))
	}
}

func (o *ackObserver) pollBuffered() {
	o.mu.Lock()
	defer o.mu.Unlock()
	for _, b := range o.batches {
		if b.chanCap == 0 {
			continue
		}
		for more := true; more; {
			select {
			case v := <-b.ch:
				o.record(b, v, time.Now())
			default:
				more = false
			}
		}
	}
}

func (o *ackObserver) loop() {
	defer close(o.done)
	for {
		o.pollBuffered()
		select {
		case <-o.quit:
			o.pollBuffered()
			return
		default:
			time.Sleep(20 * time.Microsecond)
		}
	}
}

// flushReturned is called by a Flush caller right after Flush returned nil.
func (o *ackObserver) flushReturned(tCall time.Time) {
	o.mu.Lock()
	o.checkBefore(tCall, nil, "flush-barrier", "Flush returned nil")
	o.mu.Unlock()
}

func (o *ackObserver) stop() {
	close(o.quit)
	<-o.done
	o.wg.Wait()
	o.mu.Lock()
	for _, p := range o.pending {
		p.a.mu.Lock()
		late := len(p.a.gotAt) == 0 || p.a.gotAt[0].After(p.at.Add(ackGrace))
		p.a.mu.Unlock()
		if late {
			o.viol = append(o.viol, ackViolation{p.check, fmt.Sprintf("%s while batch %d (unbuffered done channel), accepted earlier, had not been answered %v later", p.what, p.a.id, ackGrace)})
		}
	}
	o.mu.Unlock()
}

func (o *ackObserver) violations() []ackViolation {
	o.mu.Lock()
	defer o.mu.Unlock()
	return append([]ackViolation(nil), o.viol...)
}

// windowCtx parks its caller the first time Done() is evaluated - for IngestRows that is on entry to the
// enqueue select, i.e. after the stopped check - until released or until a bound expires.
type windowCtx struct {
	once     sync.Once
	inWindow chan struct{}
	proceed  chan struct{}
	bound    time.Duration
}

func (w *windowCtx) Deadline() (time.Time, bool) { return time.Time{}, false }
func (w *windowCtx) Err() error                  { return nil }
func (w *windowCtx) Value(any) any               { return nil }
func (w *windowCtx) Done() <-chan struct{} {
	w.once.Do(func() {
		close(w.inWindow)
		select {
		case <-w.proceed:
		case <-time.After(w.bound):
		}
	})
	return nil
}

// ingestRacesStop: an IngestRows caller sits between its stopped check and its enqueue while Stop runs.
// Whatever the engine does (make Stop wait, or refuse the batch), a batch IngestRows accepted must be
// answered once Stop has returned nil.
func ingestRacesStop(c *ctx, i int) {
	cfg := bs.DefaultBloomSearchEngineConfig()
	cfg.IngestBufferSize = 4
	cfg.MaxBufferedTime = time.Hour
	store := NewMemStore()
	eng, err := bs.NewBloomSearchEngine(cfg, &FaultMeta{MetaStore: bs.NewMemoryMetaStore(), s: store}, store)
	if err != nil {
		fatal("engine: %v", err)
	}
	eng.Start()
	w := &windowCtx{inWindow: make(chan struct{}), proceed: make(chan struct{}), bound: time.Duration(150+100*i) * time.Millisecond}
	done := make(chan error, 1)
	ret := make(chan error, 1)
	go func() { ret <- eng.IngestRows(w, []map[string]any{{"_id": 1}}, done) }()
	select {
	case <-w.inWindow:
	case <-time.After(2 * time.Second):
		c.r.Note("ingest-races-stop: IngestRows never evaluated ctx.Done(); scenario not applicable")
		eng.Stop(context.Background())
		return
	}
	sctx, cancel := context.WithTimeout(context.Background(), 10*time.Second)
	stopErr := eng.Stop(sctx)
	cancel()
	close(w.proceed)
	ingestErr := <-ret
	var ack error
	answered := false
	select {
	case ack = <-done:
		answered = true
	case <-time.After(500 * time.Millisecond):
	}
	c.r.Case(true, fmt.Sprint("ingest-races-stop", i))
	c.r.Hit("pipeline.ingest-races-stop")
	if stopErr == nil && ingestErr == nil && !answered {
		c.r.Add(Finding{Kind: "violation", Check: "unanswered-after-graceful-stop", Detail: "IngestRows returned nil for a batch submitted while Stop was running, Stop returned nil, and the batch's done channel was never answered: the accepted batch was dropped",
			Replay: map[string]any{"scenario": "ingest-races-stop", "window_bound_ms": w.bound.Milliseconds(), "ingest_err": fmt.Sprint(ingestErr), "stop_err": fmt.Sprint(stopErr)}})
	}
	_ = ack
}

// ackImpliesVisible (C07, second clause): batches spread over partitions with small row-group limits, so that
// partition-level triggers fire while other partitions still hold rows. Whenever a nil answer is observed,
// a query issued right then must already return every row of every batch answered nil so far, exactly once.
func ackImpliesVisible(c *ctx, r Rng, i int) {
	cfg := bs.DefaultBloomSearchEngineConfig()
	cfg.PartitionFunc = partitionFunc("p")
	cfg.MaxBufferedTime = time.Hour
	cfg.MaxRowGroupRows = 1 + r.IntN(3)
	cfg.MaxBufferedRows = pick(r, []int{3, 6, 1000})
	if r.Chance(0.3) {
		cfg.MaxRowGroupBytes = 60 + r.IntN(200)
	}
	env := NewEnv(cfg)
	defer env.Stop()
	type bt struct {
		ids  []int
		done chan error
		nil_ bool
	}
	var batches []*bt
	id := 0
	var desc []string
	check := func(when string) {
		want := map[int]int{}
		for _, b := range batches {
			if b.nil_ {
				for _, x := range b.ids {
					want[x] = 1
				}
			}
		}
		out := env.Query(&bs.Query{})
		got := idsOf(out.Rows)
		for x := range want {
			if got[x] != 1 {
				c.r.Add(Finding{Kind: "violation", Check: "nil-ack-not-yet-visible", Detail: fmt.Sprintf("%s: row %d belongs to a batch already answered nil but a query issued right then returns it %d times (err %v)", when, x, got[x], out.Err),
					Replay: map[string]any{"history": desc, "MaxRowGroupRows": cfg.MaxRowGroupRows, "MaxBufferedRows": cfg.MaxBufferedRows, "MaxRowGroupBytes": cfg.MaxRowGroupBytes}})
				return
			}
		}
	}
	collect := func(when string) {
		progress := true
		for progress {
			progress = false
			for _, b := range batches {
				if b.nil_ {
					continue
				}
				select {
				case e := <-b.done:
					if e == nil {
						b.nil_ = true
						progress = true
					}
				default:
				}
			}
		}
		check(when)
	}
	for k := 0; k < 3+r.IntN(6); k++ {
		b := &bt{done: make(chan error, 1)}
		var rows []map[string]any
		var parts []string
		for j := 0; j < 1+r.IntN(3); j++ {
			id++
			p := pick(r, []string{"a", "b", "c"})
			parts = append(parts, p)
			b.ids = append(b.ids, id)
			rows = append(rows, map[string]any{"_id": id, "p": p})
		}
		desc = append(desc, fmt.Sprintf("batch%v parts%v", b.ids, parts))
		env.Eng.IngestRows(context.Background(), rows, b.done)
		batches = append(batches, b)
		time.Sleep(3 * time.Millisecond) // let a limit-triggered flush complete
		collect(fmt.Sprintf("after batch %d", k+1))
	}
	env.Eng.Flush(context.Background())
	desc = append(desc, "Flush")
	collect("after Flush returned")
	for _, b := range batches {
		if !b.nil_ {
			c.r.Add(Finding{Kind: "violation", Check: "flush-barrier", Detail: fmt.Sprintf("Flush returned but batch %v was not answered nil", b.ids), Replay: map[string]any{"history": desc}})
		}
	}
	c.r.Case(true, fmt.Sprint("ack-implies-visible", i, desc))
	c.r.Hit("pipeline.ack-implies-visible")
}

// trickleAgainstStalledStore (C09): the store stalls in CreateFile. Variant "time": a slow producer (one small
// batch at a time, the next one only after the actor has asked for a flush of the previous one) with a short
// MaxBufferedTime, so that only the time trigger ever asks for a flush. Variant "empty": one small batch stays buffered below every limit and a flood of
// empty batches follows. Either way the number of accepted, unanswered batches must stay within the bound.
func trickleAgainstStalledStore(c *ctx, r Rng, i int) {
	variant := []string{"time", "empty"}[i%2]
	cfg := bs.DefaultBloomSearchEngineConfig()
	cfg.IngestBufferSize = 1 + r.IntN(2)
	cfg.MaxBufferedRows = 3
	cfg.MaxBufferedTime = 30 * time.Millisecond
	if variant == "empty" {
		cfg.MaxBufferedTime = time.Hour
	}
	store := NewMemStore()
	g := newGate(func(op, file string) bool { return op == "create" })
	store.Gate = g.hook
	eng, err := bs.NewBloomSearchEngine(cfg, &FaultMeta{MetaStore: bs.NewMemoryMetaStore(), s: store}, store)
	if err != nil {
		fatal("engine: %v", err)
	}
	eng.Start()
	accepted := 0
	var dones []chan error
	send := func(rows []map[string]any, wait time.Duration) {
		done := make(chan error, 1)
		ctx, cancel := context.WithTimeout(context.Background(), wait)
		if eng.IngestRows(ctx, rows, done) == nil {
			accepted++
			dones = append(dones, done)
		}
		cancel()
	}
	n := 0
	if variant == "time" {
		// slower than the actor's 100 ms idle ticker, so that every flush is started by the ticker (not by the
		// next request noticing the buffer's age), and well more batches than the bound
		// Paced by the engine, not by the clock: after every accepted batch the producer waits until the actor has
		// asked for a flush of that very batch (hook event "enqueue_intent" naming its done channel; in the
		// unchanged engine that flush was started by the ticker, the producer being idle), at most 1.2 s. Three refusals in a row mean the backpressure has
		// been established and the scenario ends.
		n = 26
		var imu sync.Mutex
		flushAsked := map[uintptr]bool{} // done channels whose batch the actor has asked a flush for
		bs.VerifSetHook(func(ev bs.VerifEvent) {
			if ev.Kind == "enqueue_intent" {
				imu.Lock()
				for _, a := range ev.Chans {
					flushAsked[a] = true
				}
				imu.Unlock()
			}
		})
		refusedInARow := 0
		for k := 0; k < n && refusedInARow < 3; k++ {
			was := accepted
			send([]map[string]any{{"_id": k}}, 40*time.Millisecond)
			if accepted == was {
				refusedInARow++
				time.Sleep(120 * time.Millisecond)
				continue
			}
			refusedInARow = 0
			mine := bs.VerifChanID(dones[len(dones)-1])
			for w := 0; w < 120; w++ {
				imu.Lock()
				ok := flushAsked[mine]
				imu.Unlock()
				if ok {
					break
				}
				time.Sleep(10 * time.Millisecond)
			}
		}
		uninstallHook()
	} else {
		n = 81
		send([]map[string]any{{"_id": 0}}, 40*time.Millisecond)
		for k := 0; k < 80; k++ {
			send(nil, 10*time.Millisecond)
		}
		time.Sleep(20 * time.Millisecond)
	}
	answered := 0
	for _, d := range dones {
		select {
		case <-d:
			answered++
		default:
		}
	}
	bound := cfg.IngestBufferSize + 4*cfg.MaxBufferedRows
	c.r.Case(true, fmt.Sprint("trickle-stalled", i, variant))
	c.r.Hit("pipeline.trickle-stalled." + variant)
	if accepted-answered > bound {
		c.r.Add(Finding{Kind: "violation", Check: "backlog-bound", Detail: fmt.Sprintf("variant %q with the store stalled: %d of %d batches were accepted and %d are unanswered; bound IngestBufferSize + 4*MaxBufferedRows = %d", variant, accepted, n, accepted-answered, bound),
			Replay: map[string]any{"variant": variant, "IngestBufferSize": cfg.IngestBufferSize, "MaxBufferedRows": cfg.MaxBufferedRows, "MaxBufferedTime": cfg.MaxBufferedTime.String()}})
	}
	g.release()
	ctx, cancel := context.WithTimeout(context.Background(), 10*time.Second)
	eng.Stop(ctx)
	cancel()
}

// unreadAcksBackpressure (C09): the stores are healthy, but the producer hands in unbuffered done channels and does
// not receive from them while it keeps calling IngestRows (each call with a short context). Delivery of an
// acknowledgement is part of the pipeline: with nobody receiving, the flush worker waits, the actor's hand-off
// waits behind it, the ingest buffer fills and IngestRows stops accepting - the number of accepted, unanswered
// batches stays within IngestBufferSize + 4*MaxBufferedRows however many are offered.
// floodWithOneTightLimit (C09): exactly one of the four flush limits is tight (the others are out of reach), with
// and without a partition function; the store stalls in CreateFile and a producer floods one-row batches. Whatever
// limit starts the flushes, the accepted-but-unanswered batches stay within IngestBufferSize + four flushes' worth.
func floodWithOneTightLimit(c *ctx, r Rng, i int) {
	variant := []string{"MaxRowGroupRows", "MaxRowGroupBytes", "MaxBufferedRows", "MaxBufferedBytes"}[i%4]
	partitioned := (i/4)%2 == 1
	cfg := bs.DefaultBloomSearchEngineConfig()
	cfg.IngestBufferSize = 1 + r.IntN(4)
	cfg.MaxBufferedTime = time.Hour
	cfg.MaxBufferedRows, cfg.MaxBufferedBytes, cfg.MaxRowGroupRows, cfg.MaxRowGroupBytes = 1<<20, 1<<30, 1<<20, 1<<30
	k := 2 + r.IntN(2) // batches per flush
	rowSize := len(`{"_id":100}`) + 4
	switch variant {
	case "MaxRowGroupRows":
		cfg.MaxRowGroupRows = k
	case "MaxRowGroupBytes":
		cfg.MaxRowGroupBytes = k*rowSize - 2
	case "MaxBufferedRows":
		cfg.MaxBufferedRows = k
	case "MaxBufferedBytes":
		cfg.MaxBufferedBytes = k*rowSize - 2
	}
	if partitioned {
		cfg.PartitionFunc = func(map[string]any) string { return "p" }
	}
	store := NewMemStore()
	g := newGate(func(op, file string) bool { return op == "create" })
	store.Gate = g.hook
	eng, err := bs.NewBloomSearchEngine(cfg, &FaultMeta{MetaStore: bs.NewMemoryMetaStore(), s: store}, store)
	if err != nil {
		fatal("engine: %v", err)
	}
	eng.Start()
	bound := cfg.IngestBufferSize + 4*k
	n := 3*bound + 10
	accepted := 0
	var dones []chan error
	for j := 0; j < n; j++ {
		done := make(chan error, 1)
		ctx, cancel := context.WithTimeout(context.Background(), 25*time.Millisecond)
		if eng.IngestRows(ctx, []map[string]any{{"_id": 100 + j%800}}, done) == nil {
			accepted++
			dones = append(dones, done)
		}
		cancel()
	}
	answered := 0
	for _, d := range dones {
		select {
		case <-d:
			answered++
		default:
		}
	}
	c.r.Case(true, fmt.Sprint("flood-one-limit", variant, partitioned, cfg.IngestBufferSize, k))
	c.r.Hit("pipeline.flood-one-limit." + variant + "." + b2s(partitioned))
	if accepted-answered > bound {
		c.r.Add(Finding{Kind: "violation", Check: "backlog-bound", Detail: fmt.Sprintf("with %s the only reachable flush limit (%d one-row batches per flush, partition function: %v) and the store stalled, %d of %d batches were accepted and %d are unanswered; bound IngestBufferSize + 4 flushes = %d", variant, k, partitioned, accepted, n, accepted-answered, bound),
			Replay: map[string]any{"tight_limit": variant, "batches_per_flush": k, "partitioned": partitioned, "IngestBufferSize": cfg.IngestBufferSize}})
	}
	g.release()
	sctx, cancel := context.WithTimeout(context.Background(), 10*time.Second)
	eng.Stop(sctx)
	cancel()
}

func unreadAcksBackpressure(c *ctx) {
	for _, rows := range []int{1, 2} {
		cfg := bs.DefaultBloomSearchEngineConfig()
		cfg.IngestBufferSize = 1
		cfg.MaxBufferedRows = rows
		cfg.MaxBufferedTime = time.Hour
		store := NewMemStore()
		eng, err := bs.NewBloomSearchEngine(cfg, &FaultMeta{MetaStore: bs.NewMemoryMetaStore(), s: store}, store)
		if err != nil {
			fatal("engine: %v", err)
		}
		eng.Start()
		var dones []chan error
		accepted := 0
		n := 40
		for k := 0; k < n; k++ {
			done := make(chan error) // unbuffered, nobody receives yet
			ctx, cancel := context.WithTimeout(context.Background(), 40*time.Millisecond)
			if eng.IngestRows(ctx, []map[string]any{{"_id": k}}, done) == nil {
				accepted++
				dones = append(dones, done)
			}
			cancel()
		}
		bound := cfg.IngestBufferSize + 4*cfg.MaxBufferedRows
		c.r.Case(true, fmt.Sprint("unread-acks", rows))
		c.r.Hit("pipeline.unread-acks")
		if accepted > bound {
			c.r.Add(Finding{Kind: "violation", Check: "backlog-bound", Detail: fmt.Sprintf("with healthy stores and a producer that never receives from its unbuffered done channels, %d of %d batches were accepted and none answered; bound IngestBufferSize + 4*MaxBufferedRows = %d", accepted, n, bound),
				Replay: map[string]any{"variant": "unread-acks", "IngestBufferSize": cfg.IngestBufferSize, "MaxBufferedRows": cfg.MaxBufferedRows}})
		}
		// now receive everything so the engine can wind down
		for _, d := range dones {
			go func(d chan error) {
				select {
				case <-d:
				case <-time.After(10 * time.Second):
				}
			}(d)
		}
		ctx, cancel := context.WithTimeout(context.Background(), 10*time.Second)
		eng.Stop(ctx)
		cancel()
	}
}

// faultAtEveryFlushCall (C05): one and two partition flushes with a failure injected at each store call in
// turn (create, every write, close, update); whatever fails, every accepted batch is answered exactly once.
func faultAtEveryFlushCall(c *ctx) {
	for _, parts := range [][]string{{"a"}, {"a", "b"}} {
		// k: the failing call; k > 14: call k-14 AND the call after it fail (the cleanup of a failure fails too:
		// Abort after a failed Write, TombstoneFile after a failed Update, ...)
		for k := 1; k <= 28; k++ {
			cfg := bs.DefaultBloomSearchEngineConfig()
			cfg.PartitionFunc = partitionFunc("p")
			cfg.MaxBufferedTime = time.Hour
			store := NewMemStore()
			if k <= 14 {
				store.SetFaults([]string{"create", "write", "close", "update"}, k)
			} else {
				store.SetFaults([]string{"create", "write", "close", "abort", "update", "tombstone"}, k-14, k-13)
			}
			eng, err := bs.NewBloomSearchEngine(cfg, &FaultMeta{MetaStore: bs.NewMemoryMetaStore(), s: store}, store)
			if err != nil {
				fatal("engine: %v", err)
			}
			eng.Start()
			var dones []chan error
			for b := 0; b < 2; b++ {
				var rows []map[string]any
				for _, p := range parts {
					rows = append(rows, map[string]any{"_id": b*10 + len(rows), "p": p})
				}
				d := make(chan error, 8)
				dones = append(dones, d)
				eng.IngestRows(context.Background(), rows, d)
			}
			// bounded: Flush waits for its own acknowledgement, and a flush whose waiters are never answered must
			// not hang the check (the goroutine is abandoned then)
			flushed := make(chan struct{})
			go func() { eng.Flush(context.Background()); close(flushed) }()
			flushReturned := true
			select {
			case <-flushed:
			case <-time.After(5 * time.Second):
				flushReturned = false
			}
			ctx, cancel := context.WithTimeout(context.Background(), 10*time.Second)
			serr := eng.Stop(ctx)
			cancel()
			c.r.Case(true, fmt.Sprint("fault-at-flush-call", parts, k))
			c.r.Hit("pipeline.fault-at-flush-call")
			if !flushReturned {
				c.r.Add(Finding{Kind: "violation", Check: "unanswered-flush", Detail: fmt.Sprintf("with store call #%d of a %d-partition flush failing (k > 14: calls k-14 and k-13), Flush did not return within 5s: its acknowledgement was never delivered", k, len(parts)),
					Replay: map[string]any{"partitions": parts, "failing_call": k}})
			}
			for i, d := range dones {
				if n := len(d); n != 1 && serr == nil {
					check := "answered-twice"
					if n == 0 {
						check = "unanswered-after-graceful-stop"
					}
					c.r.Add(Finding{Kind: "violation", Check: check, Detail: fmt.Sprintf("with store call #%d of a %d-partition flush failing, batch %d received %d values on its done channel (Stop returned nil)", k, len(parts), i+1, n),
						Replay: map[string]any{"partitions": parts, "failing_call": k}})
				}
			}
		}
	}
}
