package main

import (
	"fmt"
	"math"
	"sort"

	bs "github.com/danthegoodman1/bloomsearch"
)

func sortStrings(s []string) { sort.Strings(s) }

func init() { props["C04"] = runC04 }

func runC04(c *ctx) {
	c.r.Rule = "T-diff of ConvertToMinMaxInt64 / Evaluate{MinMax,Numeric,String}Condition / EvaluateDataBlockMetadata against the Lean model " +
		"(boundary cross product exhaustive + PRNG cases), a direct cover monitor on the implementation, and end-to-end prefilter queries; " +
		"non-trivial = the model verdict is reached through a known operator on a numeric value / the row satisfies the prefilter; distinct by input text"
	c04Conv(c)
	c04EvalBoundary(c)
	c04Cover(c)
	c04Tree(c)
	c04EndToEnd(c)
}

// A. conversion of every numeric kind
func c04Conv(c *ctx) {
	r := NewRng(c.seed, 401)
	n := 20000 * c.scale
	for i := 0; i < n; i++ {
		nc := genNum(r)
		lo, hi, ok := bs.ConvertToMinMaxInt64(nc.Go)
		c.r.Hit("conv.kind." + nc.Kind)
		key := "conv " + describeNum(nc)
		if nc.Tok == "" {
			c.r.Case(false, key)
			if ok {
				c.r.Add(Finding{Kind: "disagreement", Check: "conv", Detail: fmt.Sprintf("%s converted (%d,%d) but is not a non-NaN number", describeNum(nc), lo, hi), Replay: map[string]any{"kind": nc.Kind, "value": fmt.Sprint(nc.Go)}})
			}
			continue
		}
		c.r.Case(true, key)
		want := c.m.Ask("range " + nc.Tok)
		got := "none"
		if ok {
			got = fmt.Sprintf("%d %d", lo, hi)
		}
		if i < 3 {
			c.r.Sample(map[string]any{"check": "conv", "value": describeNum(nc), "model": want, "impl": got})
		}
		if got != want {
			kind := "disagreement"
			fkey := ""
			if !ok && nc.Named {
				fkey = "named-numeric-kind-not-indexed"
			}
			c.r.Add(Finding{Kind: kind, Check: "conv", Key: fkey, Detail: fmt.Sprintf("ConvertToMinMaxInt64(%s) = %s, model %s", describeNum(nc), got, want),
				Replay: map[string]any{"kind": nc.Kind, "value": fmt.Sprint(nc.Go), "numval": nc.Tok}})
		}
	}
}

var boundary = []int64{math.MinInt64, math.MinInt64 + 1, -1, 0, 1, math.MaxInt64 - 1, math.MaxInt64}

// B. evaluators: exhaustive over boundary values × operators, plus random
func c04EvalBoundary(c *ctx) {
	ops := append([]bs.QueryOperator{}, knownOps...)
	ops = append(ops, "BOGUS")
	lists := [][]int64{nil, {0}, {math.MaxInt64}, {math.MinInt64, 1}, {-1, 0, 1}}
	check := func(mm bs.MinMaxIndex, cond bs.NumericCondition) {
		t := (&toks{}).add("mmc").i(mm.Min).i(mm.Max)
		numCondTok(t, cond)
		want := c.m.Ask(t.String())
		got := b2s(bs.EvaluateMinMaxCondition(mm, cond))
		c.r.Case(cond.Operator != "BOGUS", t.String())
		c.r.Hit("mmc.op." + string(cond.Operator) + "." + got)
		if got != want {
			c.r.Add(Finding{Kind: "disagreement", Check: "EvaluateMinMaxCondition", Detail: fmt.Sprintf("range [%d,%d] cond %+v: impl %s model %s", mm.Min, mm.Max, cond, got, want),
				Replay: map[string]any{"min": mm.Min, "max": mm.Max, "cond": cond}})
		}
		// numeric evaluator on both ends of the range
		for _, v := range []int64{mm.Min, mm.Max} {
			t2 := (&toks{}).add("numc").i(v)
			numCondTok(t2, cond)
			w2 := c.m.Ask(t2.String())
			g2 := b2s(bs.EvaluateNumericCondition(v, cond))
			c.r.Case(cond.Operator != "BOGUS", t2.String())
			if g2 != w2 {
				c.r.Add(Finding{Kind: "disagreement", Check: "EvaluateNumericCondition", Detail: fmt.Sprintf("value %d cond %+v: impl %s model %s", v, cond, g2, w2),
					Replay: map[string]any{"value": v, "cond": cond}})
			}
		}
	}
	for _, lo := range boundary {
		for _, hi := range boundary {
			if lo > hi {
				continue
			}
			mm := bs.MinMaxIndex{Min: lo, Max: hi}
			for _, op := range ops {
				switch op {
				case bs.OpIn, bs.OpNotIn:
					for _, l := range lists {
						check(mm, bs.NumericCondition{Operator: op, Values: l})
					}
				case bs.OpBetween, bs.OpNotBetween:
					for _, a := range boundary {
						for _, b := range boundary {
							check(mm, bs.NumericCondition{Operator: op, Min: a, Max: b})
						}
					}
				default:
					for _, v := range boundary {
						check(mm, bs.NumericCondition{Operator: op, Value: v})
					}
				}
			}
		}
	}
	c.r.Exhaustive = false
	c.r.Note("EvaluateMinMaxCondition/EvaluateNumericCondition: boundary cross product {Min,Min+1,-1,0,1,Max-1,Max} for range × operand × 11 operators enumerated completely")
	// string evaluator: small exhaustive pool
	pool := []string{"", "a", "ab", "b", "B", "é"}
	for _, op := range ops {
		for _, v := range pool {
			for _, x := range pool {
				for _, y := range pool {
					cond := bs.StringCondition{Operator: op, Value: x, Min: x, Max: y, Values: []string{x, y}}
					t := (&toks{}).add("strc").s(v)
					strCondTok(t, cond)
					want := c.m.Ask(t.String())
					got := b2s(bs.EvaluateStringCondition(v, cond))
					c.r.Case(op != "BOGUS", t.String())
					c.r.Hit("strc.op." + string(op) + "." + got)
					if got != want {
						c.r.Add(Finding{Kind: "disagreement", Check: "EvaluateStringCondition", Detail: fmt.Sprintf("value %q cond %+v: impl %s model %s", v, cond, got, want),
							Replay: map[string]any{"value": v, "cond": cond}})
					}
				}
			}
		}
	}
	// UpdateMinMaxIndex
	for _, lo := range boundary {
		for _, hi := range boundary {
			for _, a := range boundary {
				for _, b := range boundary {
					got := bs.UpdateMinMaxIndex(bs.MinMaxIndex{Min: lo, Max: hi}, a, b)
					want := c.m.Ask((&toks{}).add("upd").i(lo).i(hi).i(a).i(b).String())
					c.r.Case(true, fmt.Sprint("upd", lo, hi, a, b))
					if fmt.Sprintf("%d %d", got.Min, got.Max) != want {
						c.r.Add(Finding{Kind: "disagreement", Check: "UpdateMinMaxIndex", Detail: fmt.Sprintf("(%d,%d)+(%d,%d): impl %v model %s", lo, hi, a, b, got, want),
							Replay: map[string]any{"min": lo, "max": hi, "newMin": a, "newMax": b}})
					}
				}
			}
		}
	}
}

// C. direct property monitor on the implementation: a value that satisfies the condition (exact
// semantics, decided by the model) keeps any block range built from it by the real functions.
func c04Cover(c *ctx) {
	r := NewRng(c.seed, 403)
	n := 20000 * c.scale
	sat := 0
	for i := 0; i < n; i++ {
		nc := genNum(r)
		if nc.Tok == "" {
			continue
		}
		lo, hi, ok := bs.ConvertToMinMaxInt64(nc.Go)
		var around []int64
		if ok {
			around = []int64{lo, hi}
		} else {
			around = []int64{0}
		}
		cond := genNumCond(r, around)
		t := (&toks{}).add("sat").add(nc.Tok)
		numCondTok(t, cond)
		isSat := c.m.Ask(t.String()) == "1"
		c.r.Case(isSat, t.String())
		c.r.Hit("cover.sat." + b2s(isSat))
		if !isSat {
			continue
		}
		sat++
		if !ok {
			c.r.Add(Finding{Kind: "violation", Check: "cover", Key: keyIf(nc.Named, "named-numeric-kind-not-indexed"),
				Detail: fmt.Sprintf("%s satisfies %+v but is not indexed (ConvertToMinMaxInt64 ok=false): its block gets no minmax key and is pruned", describeNum(nc), cond),
				Replay: map[string]any{"kind": nc.Kind, "value": fmt.Sprint(nc.Go), "cond": cond}})
			continue
		}
		// widen with a few other values through the real update function
		mm := bs.MinMaxIndex{Min: lo, Max: hi}
		for k := r.IntN(3); k > 0; k-- {
			o := genNum(r)
			if l2, h2, ok2 := bs.ConvertToMinMaxInt64(o.Go); ok2 {
				mm = bs.UpdateMinMaxIndex(mm, l2, h2)
			}
		}
		if !bs.EvaluateMinMaxCondition(mm, cond) {
			c.r.Add(Finding{Kind: "violation", Check: "cover", Detail: fmt.Sprintf("%s satisfies %+v but block range [%d,%d] built from it is pruned", describeNum(nc), cond, mm.Min, mm.Max),
				Replay: map[string]any{"kind": nc.Kind, "value": fmt.Sprint(nc.Go), "cond": cond, "min": mm.Min, "max": mm.Max}})
		}
		// a merge folds whole ranges of other blocks into this one, in either order: the other block's range may lie
		// on one side, overlap, be enclosed by or enclose this block's range
		if i%2 == 0 {
			var other *bs.MinMaxIndex
			for k := 1 + r.IntN(3); k > 0; k-- {
				o := genNum(r)
				if l2, h2, ok2 := bs.ConvertToMinMaxInt64(o.Go); ok2 {
					if other == nil {
						other = &bs.MinMaxIndex{Min: l2, Max: h2}
					} else {
						*other = bs.UpdateMinMaxIndex(*other, l2, h2)
					}
				}
			}
			if other == nil || r.Chance(0.3) {
				// ranges straddling this block's own range on both sides by a little
				other = &bs.MinMaxIndex{Min: mm.Min, Max: mm.Max}
				if other.Min > math.MinInt64+9 {
					other.Min -= int64(1 + r.IntN(9))
				}
				if other.Max < math.MaxInt64-9 {
					other.Max += int64(1 + r.IntN(9))
				}
			}
			for dir, merged := range []bs.MinMaxIndex{bs.UpdateMinMaxIndex(mm, other.Min, other.Max), bs.UpdateMinMaxIndex(*other, mm.Min, mm.Max)} {
				c.r.Hit("cover.range-fold")
				if !bs.EvaluateMinMaxCondition(merged, cond) || merged.Min > mm.Min || merged.Max < mm.Max {
					c.r.Add(Finding{Kind: "violation", Check: "cover", Detail: fmt.Sprintf("%s satisfies %+v and its block's range is [%d,%d]; folded (order %d) with another block's range [%d,%d] as a merge does, the merged range [%d,%d] no longer covers it / is pruned", describeNum(nc), cond, mm.Min, mm.Max, dir, other.Min, other.Max, merged.Min, merged.Max),
						Replay: map[string]any{"kind": nc.Kind, "value": fmt.Sprint(nc.Go), "cond": cond, "block": mm, "other": *other, "merged": merged, "order": dir}})
					break
				}
			}
		}
	}
	c.r.Note("cover monitor: %d of %d cases had a value satisfying the condition", sat, n)
}

func keyIf(b bool, k string) string {
	if b {
		return k
	}
	return ""
}

// D. tree evaluation on block metadata
func c04Tree(c *ctx) {
	r := NewRng(c.seed, 404)
	n := 6000 * c.scale
	for i := 0; i < n; i++ {
		m := bs.DataBlockMetadata{PartitionID: pick(r, partPool)}
		var around []int64
		if r.Chance(0.9) {
			m.MinMaxIndexes = map[string]bs.MinMaxIndex{}
			for _, k := range mmKeys {
				if r.Chance(0.6) {
					a, b := genInt64(r), genInt64(r)
					if a > b {
						a, b = b, a
					}
					m.MinMaxIndexes[k] = bs.MinMaxIndex{Min: a, Max: b}
					around = append(around, a, b)
				}
			}
		}
		var q *bs.QueryPrefilter
		switch r.Pick(20) {
		case 0:
			q = nil
		case 1:
			q = &bs.QueryPrefilter{}
		default:
			e := genPreExpr(r, 3, around)
			q = &bs.QueryPrefilter{Expression: &e}
		}
		t := (&toks{}).add("pre")
		metaTok(t, &m)
		prefilterTok(t, q)
		want := c.m.Ask(t.String())
		got := b2s(bs.EvaluateDataBlockMetadata(&m, q))
		c.r.Case(q != nil && q.Expression != nil, t.String())
		c.r.Hit("tree.verdict." + got)
		if i < 2 {
			c.r.Sample(map[string]any{"check": "tree", "line": trunc(t.String(), 300), "model": want, "impl": got})
		}
		if got != want {
			c.r.Add(Finding{Kind: "disagreement", Check: "EvaluateDataBlockMetadata", Detail: fmt.Sprintf("impl %s model %s", got, want),
				Replay: map[string]any{"meta": m, "prefilter": q, "line": t.String()}})
		}
	}
}

// E. end to end: rows whose own values satisfy the prefilter are returned.
func c04EndToEnd(c *ctx) {
	r := NewRng(c.seed, 405)
	hist := 12 * c.scale
	for h := 0; h < hist; h++ {
		cfg := bs.DefaultBloomSearchEngineConfig()
		cfg.MinMaxIndexes = []string{"k1", "k2"}
		cfg.PartitionFunc = func(row map[string]any) string {
			s, _ := row["p"].(string)
			return s
		}
		cfg.MaxBufferedRows = 2 + r.IntN(6)
		cfg.MaxRowGroupRows = 1 + r.IntN(4)
		cfg.RowDataCompression = pick(r, []bs.CompressionType{bs.CompressionNone, bs.CompressionSnappy, bs.CompressionZstd})
		env := NewEnv(cfg)
		type rowInfo struct {
			id   int
			pid  string
			vals map[string]NumCase
		}
		var rows []rowInfo
		var around []int64
		nrows := 6 + r.IntN(14)
		id := 0
		for len(rows) < nrows {
			bn := 1 + r.IntN(3)
			var batch []map[string]any
			var infos []rowInfo
			for b := 0; b < bn; b++ {
				id++
				row := map[string]any{"_id": id, "p": pick(r, []string{"", "a", "b", "p1", "p2"})}
				info := rowInfo{id: id, pid: row["p"].(string), vals: map[string]NumCase{}}
				for _, k := range cfg.MinMaxIndexes {
					if r.Chance(0.8) {
						nc := genNum(r)
						for nc.Kind == "map" || nc.Kind == "slice" || (nc.Tok == "" && (nc.Kind == "float64" || nc.Kind == "float32" || nc.Named)) || nc.Tok == "pinf" || nc.Tok == "ninf" {
							nc = genNum(r) // NaN/Inf do not marshal
						}
						row[k] = nc.Go
						info.vals[k] = nc
						if lo, hi, ok := bs.ConvertToMinMaxInt64(nc.Go); ok {
							around = append(around, lo, hi)
						}
					}
				}
				batch = append(batch, row)
				infos = append(infos, info)
			}
			if err := env.IngestWait(batch); err != nil {
				c.r.Add(Finding{Kind: "disagreement", Check: "e2e-ingest", Detail: "healthy ingest failed: " + err.Error(), Replay: map[string]any{"batch": fmt.Sprint(batch)}})
				continue
			}
			rows = append(rows, infos...)
		}
		for qi := 0; qi < 25; qi++ {
			e := genPreExpr(r, 2, around)
			q := bs.NewQuery().MatchPrefilter(e).Build()
			out := env.Query(q)
			got := map[int]int{}
			for _, row := range out.Rows {
				if f, ok := row["_id"].(float64); ok {
					got[int(f)]++
				}
			}
			for _, ri := range rows {
				t := (&toks{}).add("rowpre").s(ri.pid)
				cnt := 0
				var vt toks
				for _, k := range cfg.MinMaxIndexes {
					if nc, ok := ri.vals[k]; ok && nc.Tok != "" {
						cnt++
						vt.s(k).add(nc.Tok)
					}
				}
				t.n(cnt)
				if cnt > 0 {
					t.add(vt.String())
				}
				prefilterTok(t, q.Prefilter)
				sat := c.m.Ask(t.String()) == "1"
				c.r.Case(sat, fmt.Sprint(h, qi, ri.id))
				c.r.Hit("e2e.rowsat." + b2s(sat))
				if sat && got[ri.id] == 0 {
					named := false
					desc := map[string]string{}
					for k, nc := range ri.vals {
						desc[k] = describeNum(nc)
						if _, _, ok := bs.ConvertToMinMaxInt64(nc.Go); !ok && nc.Named {
							named = true
						}
					}
					c.r.Add(Finding{Kind: "violation", Check: "e2e", Key: keyIf(named, "named-numeric-kind-not-indexed"),
						Detail: fmt.Sprintf("row %d (partition %q, values %v) satisfies the prefilter but was not returned (err=%v)", ri.id, ri.pid, desc, out.Err),
						Replay: map[string]any{"row_id": ri.id, "partition": ri.pid, "values": desc, "prefilter": q.Prefilter, "model_line": t.String()}})
				}
			}
			if out.Err != nil {
				c.r.Add(Finding{Kind: "disagreement", Check: "e2e", Detail: "query on healthy stores returned error: " + out.Err.Error(), Replay: map[string]any{"prefilter": q.Prefilter}})
			}
		}
		env.Stop()
	}
}
