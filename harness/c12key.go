package main

// C12 — the merge bucket key. `blockMergeKey` decides which blocks may be combined; the Lean model
// (Model/MergeKey) is proved to identify exactly (partition, set of minmax key names)
// (`C12.merge_key_exact`). Here the implementation's key bytes are compared with the model's on
// adversarial name populations (names that are prefixes / concatenations of one another, long names,
// empty names, separator-like bytes), the induced equivalence is compared with the canonical one, and
// the same adversarial shapes are driven through real merges.

import (
	"context"
	"encoding/hex"
	"fmt"
	"sort"
	"strings"
	"time"

	bs "github.com/danthegoodman1/bloomsearch"
)

func hexOrDash(s string) string {
	if s == "" {
		return "-"
	}
	return hex.EncodeToString([]byte(s))
}

func canonShape(p string, names []string) string {
	ks := append([]string(nil), names...)
	sort.Strings(ks)
	return fmt.Sprintf("%q|%q", p, ks)
}

type keyShape struct {
	p     string
	names []string
}

func (s keyShape) block() *bs.DataBlockMetadata {
	b := &bs.DataBlockMetadata{PartitionID: s.p, MinMaxIndexes: map[string]bs.MinMaxIndex{}}
	for _, n := range s.names {
		b.MinMaxIndexes[n] = bs.MinMaxIndex{Min: 1, Max: 2}
	}
	return b
}

// adversarialShapes: families whose naive encodings collide.
func adversarialShapes(r Rng) []keyShape {
	long := func(ch string, n int) string { return strings.Repeat(ch, n) }
	out := []keyShape{
		{"p", []string{"x", "yy"}}, {"p", []string{"xy", "y"}}, {"p", []string{"x", "y", "y"}[:2]}, {"p", []string{"xyy"}},
		{"p", []string{"x", "xy", "y", "yy"}}, {"p", nil}, {"", nil}, {"", []string{""}}, {"", []string{"", "a"}},
		{"pa", []string{"b"}}, {"p", []string{"ab"}}, {"pab", nil}, {"p", []string{"a", "b"}},
		{"p", []string{"a\x01b"}}, {"p", []string{"a", "\x01b"}}, {"p", []string{"a\x01", "b"}},
		{"p\x01a", nil}, {"p", []string{"\x01a"}}, {"\x01", []string{"p"}},
		{"p", []string{long("k", 127)}}, {"p", []string{long("k", 128)}}, {"p", []string{long("k", 129)}},
		{"p", []string{long("k", 64), long("k", 64)}[:1]}, {"p", []string{long("k", 16383)}}, {"p", []string{long("k", 16384)}},
		{long("q", 128), []string{"a"}}, {long("q", 127), []string{"qa"}}, {long("q", 300), nil},
		{"p", []string{"\x80\x01", "a"}}, {"p", []string{"\x80", "\x01a"}}, {"p", []string{"é", "e"}}, {"p", []string{"\xff"}},
	}
	pool := []string{"a", "b", "ab", "ba", "aa", "", "a\x00", "\x00a", "\x01", "\x02ab", "ts", "t", "s", "x.y", "x", "y", "xy", "yy"}
	for i := 0; i < 60; i++ {
		n := r.IntN(5)
		set := map[string]bool{}
		for j := 0; j < n; j++ {
			set[pick(r, pool)] = true
		}
		var names []string
		for k := range set {
			names = append(names, k)
		}
		out = append(out, keyShape{pick(r, []string{"", "p", "pa", "a", "\x01", "p\x00"}), names})
	}
	return out
}

func mergeKeyCorrespondence(c *ctx) {
	r := NewRng(c.seed, 131)
	shapes := adversarialShapes(r)
	goKey := make([]string, len(shapes))
	for i, s := range shapes {
		goKey[i] = bs.VerifBlockMergeKey(s.block())
		t := (&toks{}).add("mergekey", hexOrDash(s.p)).n(len(s.names))
		// the map's iteration order is not defined: the model gets the names in generation order
		for _, n := range s.names {
			t.add(hexOrDash(n))
		}
		want := c.m.Ask(t.String())
		got := hexOrDash(goKey[i])
		c.r.Case(true, "mergekey "+canonShape(s.p, s.names))
		c.r.Hit("mergekey.compared")
		if got != want {
			c.r.Add(Finding{Kind: "disagreement", Check: "merge-key-bytes", Detail: fmt.Sprintf("blockMergeKey of partition %q, minmax keys %q differs from the Lean model", s.p, s.names),
				Replay: map[string]any{"partition": s.p, "names": s.names, "impl": got, "model": want, "line": t.String()}})
		}
	}
	// the induced equivalence: same key bytes <=> same (partition, key-name set)
	reported := 0
	for i := range shapes {
		for j := i + 1; j < len(shapes); j++ {
			same := canonShape(shapes[i].p, shapes[i].names) == canonShape(shapes[j].p, shapes[j].names)
			if (goKey[i] == goKey[j]) == same {
				continue
			}
			if reported++; reported > 3 {
				continue
			}
			if same {
				c.r.Add(Finding{Kind: "disagreement", Check: "merge-key-splits-bucket", Detail: fmt.Sprintf("two blocks with the same partition %q and the same minmax key set %q get different merge keys", shapes[i].p, shapes[i].names), Replay: map[string]any{"a": shapes[i], "b": shapes[j]}})
				continue
			}
			// a collision: try to make a real merge combine the two blocks
			if f := mergeOfTwoShapes(c, shapes[i], shapes[j]); f != nil {
				c.r.Add(*f)
			} else {
				c.r.Add(Finding{Kind: "disagreement", Check: "merge-key-collision", Detail: fmt.Sprintf("blocks (partition %q, keys %q) and (partition %q, keys %q) get the same merge key %x", shapes[i].p, shapes[i].names, shapes[j].p, shapes[j].names, goKey[i]),
					Replay: map[string]any{"a_partition": shapes[i].p, "a_keys": shapes[i].names, "b_partition": shapes[j].p, "b_keys": shapes[j].names}})
			}
		}
	}
	// the same shapes through real merges, whether or not the keys collide: no output block may combine them
	pairs := [][2]keyShape{
		{{"pp", []string{"x", "yy"}}, {"pp", []string{"xy", "y"}}},
		{{"pp", []string{"ab"}}, {"pp", []string{"a", "b"}}},
		{{"pp", []string{"a", "bc"}}, {"pp", []string{"ab", "c"}}},
		{{"pp", []string{"a"}}, {"pp", nil}},
		{{"pp", []string{strings.Repeat("k", 128)}}, {"pp", []string{strings.Repeat("k", 127) + "j"}}},
		{{"ppa", nil}, {"pp", []string{"a"}}},
	}
	for _, p := range pairs {
		if f := mergeOfTwoShapes(c, p[0], p[1]); f != nil {
			c.r.Add(*f)
		}
	}
}

// mergeOfTwoShapes writes two files, each holding one block of shape a resp. b (a != b canonically) and one
// block of a shared partition (so the files are grouped), merges them, and reports a violation when an output
// block combines the a-row with the b-row or a strict prefilter changes its answer.
func mergeOfTwoShapes(c *ctx, a, b keyShape) *Finding {
	all := map[string]bool{}
	for _, n := range append(append([]string(nil), a.names...), b.names...) {
		if n == "" || strings.ContainsAny(n, ".\x00") || n == "p" || n == "_id" {
			return nil // not expressible as a top-level row field of this scenario
		}
		all[n] = true
	}
	if a.p == "shared" || b.p == "shared" {
		return nil
	}
	cfg := bs.DefaultBloomSearchEngineConfig()
	cfg.PartitionFunc = partitionFunc("p")
	cfg.MaxBufferedTime = time.Hour
	cfg.RowDataCompression = bs.CompressionNone
	cfg.MaxFilesToMergePerOperation = 8
	for n := range all {
		cfg.MinMaxIndexes = append(cfg.MinMaxIndexes, n)
	}
	sort.Strings(cfg.MinMaxIndexes)
	env := NewEnv(cfg)
	defer env.Stop()
	h := &History{Env: env, Rows: map[int]*StoredRow{}}
	row := func(id int, s keyShape) map[string]any {
		m := map[string]any{"_id": id, "p": s.p}
		for i, n := range s.names {
			m[n] = 10*id + i
		}
		return m
	}
	env.IngestWait([]map[string]any{row(1, a), {"_id": 2, "p": "shared", "note": "s"}})
	env.IngestWait([]map[string]any{row(3, b), {"_id": 4, "p": "shared", "note": "s"}})
	var qs []*bs.Query
	var names []string
	for n := range all {
		names = append(names, n)
	}
	sort.Strings(names)
	for _, n := range names {
		qs = append(qs, bs.NewQuery().MatchPrefilter(bs.MinMax(n, bs.NumericGreaterThanEqual(0))).Build())
	}
	var before []string
	for _, q := range qs {
		before = append(before, fmt.Sprint(idsOf(env.Query(q).Rows)))
	}
	_, merr := env.Eng.Merge(context.Background())
	replay := map[string]any{"a_partition": a.p, "a_keys": a.names, "b_partition": b.p, "b_keys": b.names, "MinMaxIndexes": cfg.MinMaxIndexes, "merge_err": fmt.Sprint(merr)}
	c.r.Case(true, "merge-two-shapes "+canonShape(a.p, a.names)+" / "+canonShape(b.p, b.names))
	c.r.Hit("mergekey.real-merge")
	layout, lerr := h.Layout()
	if merr != nil || lerr != nil {
		return &Finding{Kind: "violation", Check: "two-shape-merge-failed", Detail: fmt.Sprintf("merge %v / layout %v", merr, lerr), Replay: replay}
	}
	for _, f := range layout {
		for _, blk := range f.Blocks {
			has1, has3 := false, false
			for _, id := range blk.RowIDs {
				has1 = has1 || id == 1
				has3 = has3 || id == 3
			}
			if has1 && has3 {
				return &Finding{Kind: "violation", Check: "group-key", Detail: fmt.Sprintf("an output block (partition %q, minmax keys %s) combines a block of partition %q with keys %q and a block of partition %q with keys %q", blk.Meta.PartitionID, keySet(blk.Meta), a.p, a.names, b.p, b.names), Replay: replay}
			}
		}
	}
	for i, q := range qs {
		if after := fmt.Sprint(idsOf(env.Query(q).Rows)); after != before[i] {
			return &Finding{Kind: "violation", Check: "answer-changed", Detail: fmt.Sprintf("strict prefilter %s >= 0 returned ids %s before the merge and %s after", names[i], before[i], after), Replay: replay}
		}
	}
	return nil
}

// c12MultiBatchBlocks: source blocks each buffered from several IngestRows batches before one flush (2+1 rows),
// merged under MaxRowGroupRows = 4 / 5 / 6. A combined block is judged by the rows it really holds; and every
// block's recorded row count is the number of rows in it (the merge planner trusts that number).
func c12MultiBatchBlocks(c *ctx) {
	for _, limit := range []int{4, 5, 6} {
		cfg := bs.DefaultBloomSearchEngineConfig()
		cfg.PartitionFunc = partitionFunc("p")
		cfg.MaxBufferedTime = time.Hour
		cfg.MaxRowGroupRows = limit
		cfg.RowDataCompression = bs.CompressionNone
		env := NewEnv(cfg)
		h := &History{Env: env, Rows: map[int]*StoredRow{}}
		id := 0
		for f := 0; f < 3; f++ {
			var dones []chan error
			for _, n := range []int{2, 1} {
				var rows []map[string]any
				for k := 0; k < n; k++ {
					id++
					rows = append(rows, map[string]any{"_id": id, "p": "a"})
				}
				d := make(chan error, 1)
				dones = append(dones, d)
				env.Eng.IngestRows(context.Background(), rows, d)
			}
			env.Eng.Flush(context.Background())
			for _, d := range dones {
				<-d
			}
		}
		_, merr := env.Eng.Merge(context.Background())
		layout, lerr := h.Layout()
		replay := map[string]any{"MaxRowGroupRows": limit, "files": 3, "batches_per_block": "2 rows + 1 row", "merge_err": fmt.Sprint(merr)}
		c.r.Case(true, fmt.Sprint("multi-batch-blocks", limit))
		c.r.Hit("merge.multi-batch-blocks")
		if merr != nil || lerr != nil {
			c.r.Add(Finding{Kind: "violation", Check: "multi-batch-merge-failed", Detail: fmt.Sprintf("merge %v / layout %v", merr, lerr), Replay: replay})
			env.Stop()
			continue
		}
		for _, f := range layout {
			for _, b := range f.Blocks {
				if b.Meta.Rows != len(b.Rows) {
					c.r.Add(Finding{Kind: "violation", Check: "row-count", Detail: fmt.Sprintf("a block records Rows=%d but holds %d rows (its rows were buffered from two batches before the flush, or merged from such blocks)", b.Meta.Rows, len(b.Rows)), Replay: replay})
				}
				if len(b.Rows) > limit {
					c.r.Add(Finding{Kind: "violation", Check: "row-group-limits", Detail: fmt.Sprintf("a block holds %d rows; MaxRowGroupRows=%d", len(b.Rows), limit), Replay: replay})
				}
			}
		}
		env.Stop()
	}
}
