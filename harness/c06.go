package main

// C06 (truthful acknowledgements), C13 (merge all-or-nothing), C10 (actor flush triggers):
// exhaustive fault positions / deterministic message sequences against the Lean protocol and actor models.

import (
	"bytes"
	"context"
	"errors"
	"fmt"
	"iter"
	"os"
	"path/filepath"
	"sort"
	"strings"
	"sync"
	"sync/atomic"
	"time"

	bs "github.com/danthegoodman1/bloomsearch"
)

func init() {
	props["C06"] = runC06
	props["C13"] = runC13
	props["C10"] = runC10
}

// iterating MetaStore wrapper: logs/fails GetMaybeFilesForQuery as op "iter".
func (m *FaultMeta) GetMaybeFilesForQuery(ctx context.Context, q *bs.QueryPrefilter) iter.Seq2[bs.MaybeFile, error] {
	if m.iterFaults && m.s.call("iter", "", 0) {
		return func(yield func(bs.MaybeFile, error) bool) { yield(bs.MaybeFile{}, errInjected) }
	}
	inner := m.MetaStore.GetMaybeFilesForQuery(ctx, q)
	if !m.yieldGate {
		return inner
	}
	// every hand-over of a file to the consumer is a (gateable, logged) step of its own
	return func(yield func(bs.MaybeFile, error) bool) {
		for f, err := range inner {
			m.s.call("yield", string(f.PointerBytes), 0)
			if !yield(f, err) {
				return
			}
		}
	}
}

func opsOf(log []StoreCall, keep map[string]bool) []string {
	var out []string
	for _, c := range log {
		if keep[c.Op] {
			out = append(out, c.Op)
		}
	}
	return out
}

var flushOps = map[string]bool{"create": true, "write": true, "close": true, "abort": true, "tombstone": true, "update": true}

func visibleIDs(eng *bs.BloomSearchEngine) (map[int]int, error) {
	out := RunQuery(eng, &bs.Query{})
	return idsOf(out.Rows), out.Err
}

func freshEngine(e *Env) *bs.BloomSearchEngine {
	eng, err := bs.NewBloomSearchEngine(e.Cfg, e.Meta, e.Data)
	if err != nil {
		fatal("engine: %v", err)
	}
	return eng
}

func runC06(c *ctx) {
	c.r.Rule = "for every call position k of a flush (CreateFile, each Write, Close, Abort, TombstoneFile, MetaStore.Update; exhaustive, plus all pairs in the thorough tier) a failure is injected; the store-call log and the " +
		"acknowledgement are compared with the Lean flush protocol, and visibility is queried on this engine and on a fresh engine over the same stores; an unmarshalable batch is interleaved. " +
		"Non-trivial = the injected fault was reached; distinct by (blocks, abort-capable, fault positions)"
	r := NewRng(c.seed, 600)
	shapes := 3 * c.scale
	for sh := 0; sh < shapes; sh++ {
		blocks := 1 + r.IntN(3)
		hasAbort := r.Chance(0.6)
		base := 1 + blocks + 7 + 2 // create + writes + close + update
		var faultSets [][]int
		for k := 0; k < base+2; k++ {
			faultSets = append(faultSets, []int{k})
		}
		if c.tier == "thorough" {
			for k := 0; k < base+2; k++ {
				for l := k + 1; l < base+3; l++ {
					faultSets = append(faultSets, []int{k, l})
				}
			}
		} else {
			for i := 0; i < 12; i++ {
				k := r.IntN(base + 1)
				faultSets = append(faultSets, []int{k, k + 1 + r.IntN(3)})
			}
		}
		for _, fs := range faultSets {
			cfg := bs.DefaultBloomSearchEngineConfig()
			cfg.PartitionFunc = partitionFunc("p")
			cfg.MaxBufferedTime = time.Hour
			cfg.RowDataCompression = pick(r, []bs.CompressionType{bs.CompressionNone, bs.CompressionSnappy})
			env := NewEnv(cfg)
			env.Data.noAbort = !hasAbort
			// healthy baseline batch
			if err := env.IngestWait([]map[string]any{{"_id": 1, "p": "z"}, {"_id": 2, "p": "z"}}); err != nil {
				fatal("baseline ingest: %v", err)
			}
			env.Data.ResetLog()
			ks := make([]int, len(fs))
			for i, k := range fs {
				ks[i] = k + 1
			}
			env.Data.SetFaults([]string{"*"}, ks...)
			// batch A (good), X (unmarshalable), B (good) -> one flush of `blocks` partitions
			var rowsA, rowsB []map[string]any
			id := 10
			for p := 0; p < blocks; p++ {
				id++
				rowsA = append(rowsA, map[string]any{"_id": id, "p": fmt.Sprintf("p%d", p)})
				id++
				rowsB = append(rowsB, map[string]any{"_id": id, "p": fmt.Sprintf("p%d", p)})
			}
			dA, dX, dB := make(chan error, 1), make(chan error, 1), make(chan error, 1)
			env.Eng.IngestRows(context.Background(), rowsA, dA)
			env.Eng.IngestRows(context.Background(), []map[string]any{{"_id": 99, "p": "p0"}, badRow()}, dX)
			env.Eng.IngestRows(context.Background(), rowsB, dB)
			flushErr := env.Eng.Flush(context.Background())
			ackA, ackX, ackB := <-dA, <-dX, <-dB
			log := env.Data.Log()
			env.Data.ClearFaults()
			// model
			t := (&toks{}).add("flushp").n(blocks).add(b2s(hasAbort)).n(len(fs))
			for _, k := range fs {
				t.n(k)
			}
			resp := c.m.Ask(t.String())
			parts := strings.SplitN(resp, " | ", 2)
			var mAck, mCommitted, mPublished, mTomb string
			fmt.Sscan(parts[1], &mAck, &mCommitted, &mPublished, &mTomb)
			gotCalls := strings.Join(opsOf(log, flushOps), " ")
			reached := false
			for _, cl := range log {
				if cl.Err {
					reached = true
				}
			}
			key := fmt.Sprint(blocks, hasAbort, fs)
			c.r.Case(reached, key)
			c.r.Hit("flush.ack." + b2s(ackA == nil))
			replay := map[string]any{"blocks": blocks, "abort_capable_writer": hasAbort, "fault_positions": fs, "store_calls": gotCalls, "ackA": fmt.Sprint(ackA), "ackB": fmt.Sprint(ackB), "ackX": fmt.Sprint(ackX), "flush": fmt.Sprint(flushErr), "model": resp}
			if len(c.r.Samples) < 3 {
				c.r.Sample(replay)
			}
			if gotCalls != parts[0] {
				c.r.Add(Finding{Kind: "disagreement", Check: "flush-call-sequence", Detail: "store calls of the flush differ from the Lean flush protocol", Replay: replay})
			}
			if (ackA == nil) != (ackB == nil) || (ackA == nil) != (flushErr == nil) {
				c.r.Add(Finding{Kind: "violation", Check: "flush-acks-disagree", Detail: "waiters of one flush received different verdicts", Replay: replay})
			}
			if b2s(ackA == nil) != mAck {
				c.r.Add(Finding{Kind: "disagreement", Check: "flush-ack", Detail: fmt.Sprintf("acknowledgement nil=%v, Lean protocol says %s", ackA == nil, mAck), Replay: replay})
			}
			if ackX == nil {
				c.r.Add(Finding{Kind: "violation", Check: "bad-batch-acked-nil", Detail: "a batch with an unmarshalable row was acknowledged nil", Replay: replay})
			}
			// visibility: this engine and a fresh engine
			want := map[int]int{1: 1, 2: 1}
			if ackA == nil {
				for _, row := range append(rowsA, rowsB...) {
					want[row["_id"].(int)] = 1
				}
			}
			// read-only queries must not change what is visible: a few selective prefilter queries first
			for _, pv := range []string{"p1", "p0", "p2", "p0"} {
				RunQuery(env.Eng, bs.NewQuery().MatchPrefilter(bs.Partition(bs.PartitionEquals(pv))).Build())
			}
			for which, eng := range map[string]*bs.BloomSearchEngine{"this engine": env.Eng, "a fresh engine": freshEngine(env)} {
				got, qerr := visibleIDs(eng)
				if fmt.Sprint(got) != fmt.Sprint(want) {
					c.r.Add(Finding{Kind: "violation", Check: "ack-vs-visibility", Detail: fmt.Sprintf("acknowledgement nil=%v but %s sees ids %v (want %v, query err %v)", ackA == nil, which, got, want, qerr), Replay: replay})
				}
				// the same through the filter stage: every row has an _id field, so a Field("_id") query has the
				// same answer but needs the files' block filter regions to be readable
				out := RunQuery(eng, bs.NewQuery().Field("_id").Build())
				if gotF := idsOf(out.Rows); fmt.Sprint(gotF) != fmt.Sprint(want) {
					c.r.Add(Finding{Kind: "violation", Check: "ack-vs-visibility", Detail: fmt.Sprintf("acknowledgement nil=%v but a Field(_id) query on %s sees ids %v (want %v, query err %v)", ackA == nil, which, gotF, want, out.Err), Replay: replay})
				}
			}
			// and for a MetaStore that derives metadata from the files themselves (the shipped
			// FileSystemDataStore does): every committed file must read back through ReadFileMetadata
			if files, err := AllFiles(env.Meta); err == nil {
				pub := env.Data.Published()
				for _, f := range files {
					if _, _, rerr := bs.ReadFileMetadata(bytes.NewReader(pub[string(f.PointerBytes)])); rerr != nil {
						c.r.Add(Finding{Kind: "violation", Check: "ack-vs-visibility", Detail: fmt.Sprintf("acknowledgement nil=%v and file %s is committed, but its own footer does not read back (%v): a directory-scanning MetaStore would not see its rows", ackA == nil, f.PointerBytes, rerr), Replay: replay})
					}
				}
			}
			if got99, _ := visibleIDs(env.Eng); got99[99] != 0 {
				c.r.Add(Finding{Kind: "violation", Check: "rejected-batch-visible", Detail: "a row of the rejected (unmarshalable) batch became visible", Replay: replay})
			}
			if ackA != nil && !injectedFailure(log, "tombstone") {
				var failedIDs []int
				for _, row := range append(rowsA, rowsB...) {
					failedIDs = append(failedIDs, row["_id"].(int))
				}
				if left := orphanRows(env, failedIDs); len(left) > 0 {
					c.r.Add(Finding{Kind: "violation", Check: "ack-vs-visibility", Detail: fmt.Sprintf("the flush was acknowledged with an error and no TombstoneFile call was made to fail, yet the data store still holds a readable file with rows %v of the failed batches: served by a directory-scanning MetaStore (FileSystemDataStore) they are visible", left), Replay: replay})
				}
			}
			if strings.Contains(gotCalls, "tombstone") != (mTomb == "1") {
				c.r.Add(Finding{Kind: "disagreement", Check: "flush-tombstone", Detail: fmt.Sprintf("TombstoneFile called=%v, Lean protocol says %s", strings.Contains(gotCalls, "tombstone"), mTomb), Replay: replay})
			}
			// a later healthy batch is unaffected
			if err := env.IngestWait([]map[string]any{{"_id": 500, "p": "p0"}}); err != nil {
				c.r.Add(Finding{Kind: "violation", Check: "later-batch-affected", Detail: "a healthy batch after the failed flush was not acknowledged nil: " + err.Error(), Replay: replay})
			} else if got, _ := visibleIDs(env.Eng); got[500] != 1 {
				c.r.Add(Finding{Kind: "violation", Check: "later-batch-affected", Detail: "a healthy batch after the failed flush is not visible exactly once", Replay: replay})
			}
			env.Stop()
		}
	}
	c06NilRow(c)
	c06ShutdownFlush(c)
	c06DeadlineMidFlush(c)
	c06FSDirectory(c, "C06")
	c.r.Exhaustive = true
	c.r.Note("every single fault position of each flush shape enumerated; pairs: %s", map[bool]string{true: "all", false: "12 sampled per shape"}[c.tier == "thorough"])
}

// c06ShutdownFlush: the same single-fault enumeration for the flush that Stop's drain performs on still-buffered
// batches, over stores that refuse a context that is already done (as network-backed stores do). A graceful Stop
// gives the drain flush a live context for every store call, so the call sequence is the protocol's and an
// error acknowledgement still means that nothing of the batch is visible to a fresh engine.
func c06ShutdownFlush(c *ctx) {
	for _, hasAbort := range []bool{true, false} {
		blocks := 2
		base := 1 + blocks + 7 + 2
		for k := 0; k < base+2; k++ {
			cfg := bs.DefaultBloomSearchEngineConfig()
			cfg.PartitionFunc = partitionFunc("p")
			cfg.MaxBufferedTime = time.Hour
			cfg.RowDataCompression = bs.CompressionNone
			env := NewEnv(cfg)
			env.Data.noAbort = !hasAbort
			env.Data.HonourCtx = true
			if err := env.IngestWait([]map[string]any{{"_id": 1, "p": "z"}, {"_id": 2, "p": "z"}}); err != nil {
				fatal("baseline ingest: %v", err)
			}
			env.Data.ResetLog()
			env.Data.SetFaults([]string{"*"}, k+1)
			rowsA := []map[string]any{{"_id": 11, "p": "p0"}, {"_id": 12, "p": "p1"}}
			rowsB := []map[string]any{{"_id": 13, "p": "p0"}, {"_id": 14, "p": "p1"}}
			dA, dB := make(chan error, 1), make(chan error, 1)
			env.Eng.IngestRows(context.Background(), rowsA, dA)
			env.Eng.IngestRows(context.Background(), rowsB, dB)
			stopErr := env.Eng.Stop(context.Background())
			var ackA, ackB error
			got := 0
			for got < 2 {
				select {
				case ackA = <-dA:
					got++
				case ackB = <-dB:
					got++
				case <-time.After(5 * time.Second):
					got = 99
				}
			}
			log := env.Data.Log()
			env.Data.ClearFaults()
			env.Data.HonourCtx = false
			t := (&toks{}).add("flushp").n(blocks).add(b2s(hasAbort)).n(1).n(k)
			resp := c.m.Ask(t.String())
			parts := strings.SplitN(resp, " | ", 2)
			gotCalls := strings.Join(opsOf(log, flushOps), " ")
			refusedCalls := 0
			for _, cl := range log {
				if cl.N == -1 && cl.Err {
					refusedCalls++
				}
			}
			replay := map[string]any{"scenario": "flush performed by Stop's drain; stores refuse a done context", "blocks": blocks, "abort_capable_writer": hasAbort, "fault_position": k, "store_calls": gotCalls,
				"ackA": fmt.Sprint(ackA), "ackB": fmt.Sprint(ackB), "stop": fmt.Sprint(stopErr), "model": resp, "calls_made_with_a_done_context": refusedCalls}
			c.r.Case(true, fmt.Sprint("shutdown-flush", hasAbort, k))
			c.r.Hit("flush.shutdown-drain")
			if got == 99 {
				c.r.Add(Finding{Kind: "violation", Check: "shutdown-flush-unanswered", Detail: "Stop returned but a batch drained by it was never acknowledged", Replay: replay})
				continue
			}
			if gotCalls != parts[0] {
				c.r.Add(Finding{Kind: "disagreement", Check: "flush-call-sequence", Detail: "store calls of the drain flush differ from the Lean flush protocol", Replay: replay})
			}
			want := map[int]int{1: 1, 2: 1}
			if ackA == nil {
				for _, id := range []int{11, 12, 13, 14} {
					want[id] = 1
				}
			}
			if (ackA == nil) != (ackB == nil) {
				c.r.Add(Finding{Kind: "violation", Check: "flush-acks-disagree", Detail: "waiters of one flush received different verdicts", Replay: replay})
			}
			if ackA != nil && !injectedFailure(log, "tombstone") {
				if left := orphanRows(env, []int{11, 12, 13, 14}); len(left) > 0 {
					c.r.Add(Finding{Kind: "violation", Check: "ack-vs-visibility", Detail: fmt.Sprintf("drain flush during a graceful Stop was acknowledged with an error and no TombstoneFile call was made to fail, yet the data store still holds a readable file with rows %v of the failed batches (%d store calls were made with a context that was already done): served by a directory-scanning MetaStore (FileSystemDataStore) they are visible", left, refusedCalls), Replay: replay})
				}
			}
			if gotV, qerr := visibleIDs(freshEngine(env)); fmt.Sprint(gotV) != fmt.Sprint(want) {
				c.r.Add(Finding{Kind: "violation", Check: "ack-vs-visibility", Detail: fmt.Sprintf("drain flush during Stop: acknowledgement nil=%v but a fresh engine over the same stores sees ids %v (want %v, query err %v)", ackA == nil, gotV, want, qerr), Replay: replay})
			}
		}
	}
}

// c06DeadlineMidFlush: Stop's deadline expires while a flush is inside a store call (parked by the store at
// CreateFile / a Write / Close / MetaStore.Update); the store call then returns and the flush runs on with a
// context that is already done, over stores that ignore the context (the shipped MemoryMetaStore and a local
// data store do) and that collect tombstoned files lazily. Whatever verdict the batch then receives must be true:
// nil - the rows are visible to a fresh engine exactly once; an error - none of them is.
func c06DeadlineMidFlush(c *ctx) {
	for i, parkAt := range []string{"create", "write", "close", "update", "create", "update"} {
		cfg := bs.DefaultBloomSearchEngineConfig()
		cfg.MaxBufferedTime = time.Hour
		cfg.RowDataCompression = bs.CompressionNone
		env := NewEnv(cfg)
		env.Data.DeferTombstone = i >= 2
		if err := env.IngestWait([]map[string]any{{"_id": 1}, {"_id": 2}}); err != nil {
			fatal("baseline ingest: %v", err)
		}
		g := newGate(func(op, file string) bool { return op == parkAt })
		env.Data.Gate = g.hook
		done := make(chan error, 1)
		env.Eng.IngestRows(context.Background(), []map[string]any{{"_id": 11}, {"_id": 12}}, done)
		flushed := make(chan error, 1)
		go func() { flushed <- env.Eng.Flush(context.Background()) }()
		parked := g.waitBlocked(3 * time.Second)
		sctx, cancel := context.WithTimeout(context.Background(), 30*time.Millisecond)
		stopErr := env.Eng.Stop(sctx)
		cancel()
		g.release()
		var ack error
		answered := true
		select {
		case ack = <-done:
		case <-time.After(5 * time.Second):
			answered = false
		}
		select {
		case <-flushed:
		case <-time.After(5 * time.Second):
		}
		env.Data.Gate = nil
		replay := map[string]any{"flush_parked_at": parkAt, "parked": parked, "stop": fmt.Sprint(stopErr), "ack": fmt.Sprint(ack), "answered": answered, "lazy_gc_store": env.Data.DeferTombstone}
		c.r.Case(parked, fmt.Sprint("deadline-mid-flush", i, parkAt))
		c.r.Hit("flush.deadline-mid-flush." + parkAt)
		if !answered {
			continue // C05/C08 judge unanswered batches; here only the truth of a verdict
		}
		want := map[int]int{1: 1, 2: 1}
		if ack == nil {
			want[11], want[12] = 1, 1
		}
		gotV, qerr := visibleIDs(freshEngine(env))
		if qerr != nil && ack != nil && !env.Data.DeferTombstone {
			// an error verdict, the file removed at once, but the MetaStore still lists it: the fresh engine's query fails
			c.r.Add(Finding{Kind: "violation", Check: "ack-vs-visibility", Detail: fmt.Sprintf("Stop's deadline expired while the flush was inside %s; the batch was then acknowledged with %q, yet a fresh engine over the same stores cannot answer a match-all query (%v): the failed flush left its file listed in the MetaStore", parkAt, fmt.Sprint(ack), qerr), Replay: replay})
			continue
		}
		if fmt.Sprint(gotV) != fmt.Sprint(want) {
			c.r.Add(Finding{Kind: "violation", Check: "ack-vs-visibility", Detail: fmt.Sprintf("Stop's deadline expired while the flush was inside %s; the batch was then acknowledged with %q, but a fresh engine over the same stores sees ids %v (want %v, query err %v)", parkAt, fmt.Sprint(ack), gotV, want, qerr), Replay: replay})
		}
	}
}

// orphanRows: what a directory-scanning MetaStore (the shipped FileSystemDataStore used as both stores) would
// serve from the files the data store still holds: the ids among `ids` that a fresh engine over those files returns.
func orphanRows(env *Env, ids []int) []int {
	dir, err := os.MkdirTemp("", "bsorph")
	if err != nil {
		fatal("tempdir: %v", err)
	}
	defer os.RemoveAll(dir)
	for name, data := range env.Data.Published() {
		if err := os.WriteFile(filepath.Join(dir, name+".dat"), data, 0o600); err != nil {
			fatal("write: %v", err)
		}
	}
	fsStore := bs.NewFileSystemDataStore(dir)
	eng, err := bs.NewBloomSearchEngine(env.Cfg, fsStore, fsStore)
	if err != nil {
		fatal("engine: %v", err)
	}
	got, _ := visibleIDs(eng)
	var out []int
	for _, id := range ids {
		if got[id] > 0 {
			out = append(out, id)
		}
	}
	return out
}

func injectedFailure(log []StoreCall, op string) bool {
	for _, cl := range log {
		if cl.Op == op && cl.Err && cl.N != -1 {
			return true
		}
	}
	return false
}

// c06NilRow: a nil map[string]any is a JSON-marshalable row ("null"). Whatever the engine decides about such
// a batch, the acknowledgement must be truthful: nil means every row of the batch is visible to queries
// (which must then succeed), an error means none is.
func c06NilRow(c *ctx) {
	for _, pos := range []int{0, 1, 2} {
		cfg := bs.DefaultBloomSearchEngineConfig()
		cfg.MaxBufferedTime = time.Hour
		env := NewEnv(cfg)
		rows := []map[string]any{{"_id": 1, "w": "x"}, {"_id": 2, "w": "x"}, {"_id": 3, "w": "x"}}
		batch := append([]map[string]any{}, rows[:pos]...)
		batch = append(batch, nil)
		batch = append(batch, rows[pos:]...)
		ack := env.IngestWait(batch)
		c.r.Case(true, fmt.Sprint("nil-row", pos))
		c.r.Hit("flush.nil-row-batch." + b2s(ack == nil))
		for which, eng := range map[string]*bs.BloomSearchEngine{"this engine": env.Eng, "a fresh engine": freshEngine(env)} {
			for qname, q := range map[string]*bs.Query{"match-all": {}, "Token(x)": bs.NewQuery().Token("x").Build()} {
				out := RunQuery(eng, q)
				got := idsOf(out.Rows)
				replay := map[string]any{"batch": "3 object rows with a nil map[string]any row at position " + fmt.Sprint(pos), "ack": fmt.Sprint(ack), "query": qname, "engine": which, "returned_ids": fmt.Sprint(got), "query_err": fmt.Sprint(out.Err)}
				if ack == nil && (out.Err != nil || got[1] != 1 || got[2] != 1 || got[3] != 1) {
					c.r.Add(Finding{Kind: "violation", Check: "ack-vs-visibility", Detail: fmt.Sprintf("a batch containing a nil row was acknowledged nil, but a %s query on %s returns ids %v with error %v: the acknowledged rows are not all visible", qname, which, got, out.Err), Replay: replay})
				}
				if ack != nil && len(got) != 0 {
					c.r.Add(Finding{Kind: "violation", Check: "ack-vs-visibility", Detail: fmt.Sprintf("a batch containing a nil row was refused (%v) but rows %v are visible", ack, got), Replay: replay})
				}
			}
		}
		// later healthy work is unaffected either way
		if err := env.IngestWait([]map[string]any{{"_id": 9, "w": "x"}}); err != nil {
			c.r.Add(Finding{Kind: "violation", Check: "later-batch-affected", Detail: "a healthy batch after the nil-row batch was not acknowledged nil: " + err.Error(), Replay: map[string]any{"pos": pos}})
		}
		env.Stop()
	}
}

// ---------------------------------------------------------------- C13

type mergePop struct {
	cfg   bs.BloomSearchEngineConfig
	files map[string][]byte
	metas []bs.MaybeFile
	next  int
}

func buildMergePop(r Rng, disjoint bool) *mergePop {
	cfg := bs.DefaultBloomSearchEngineConfig()
	cfg.PartitionFunc = partitionFunc("p")
	cfg.MaxBufferedTime = time.Hour
	cfg.RowDataCompression = bs.CompressionNone
	cfg.MaxRowGroupRows = pick(r, []int{2, 4, 100})
	cfg.MaxFilesToMergePerOperation = 6
	cfg.MinMaxIndexes = []string{"k"} // ranges differ per block (some nested in others): a merge widens metadata
	env := NewEnv(cfg)
	nfiles := 4 + r.IntN(3)
	id := 0
	// every second population keeps each file inside one partition, so that the merge forms several groups
	// (one per partition) and faults can land in a later group after an earlier one has completed
	shapes := [][]string{{"a"}, {"a", "b"}, {"a", "c"}}
	if disjoint {
		shapes = [][]string{{"a"}, {"b"}, {"a", "a"}, {"b", "b"}}
	}
	for f := 0; f < nfiles; f++ {
		var rows []map[string]any
		shape := pick(r, shapes)
		if disjoint && f < 4 {
			// at least two files per partition: two groups for certain
			shape = [][]string{{"a"}, {"a", "a"}, {"b"}, {"b", "b"}}[f]
		}
		for _, p := range shape {
			id++
			rows = append(rows, map[string]any{"_id": id, "p": p, "pad": strings.Repeat("x", 20), "k": 500 + (id%2*2-1)*id*10})
		}
		env.IngestWait(rows)
	}
	files, _ := AllFiles(env.Meta)
	// two files per group: cap the output size at a bit more than two files
	sz, _ := fileStats(files[0].Metadata)
	pop := &mergePop{cfg: cfg, files: env.Data.Published(), metas: files, next: env.Data.next}
	pop.cfg.MaxFileSize = pick(r, []int{sz*2 + sz/2, sz*3 + sz/2, 1 << 30})
	if disjoint {
		pop.cfg.MaxFileSize = 1 << 30
	}
	env.Stop()
	return pop
}

func (p *mergePop) instantiate() *Env {
	data := NewMemStore()
	for k, v := range p.files {
		data.files[k] = v
	}
	data.next = p.next
	ms := bs.NewMemoryMetaStore()
	for _, f := range p.metas {
		m := f.Metadata
		ms.Update(context.Background(), []bs.WriteOperation{{FileMetadata: &m, FilePointerBytes: f.PointerBytes}}, nil)
	}
	meta := &FaultMeta{MetaStore: ms, s: data, iterFaults: true}
	eng, err := bs.NewBloomSearchEngine(p.cfg, meta, data)
	if err != nil {
		fatal("engine: %v", err)
	}
	return &Env{Cfg: p.cfg, Meta: meta, Data: data, Eng: eng}
}

var mergeOps = map[string]bool{"iter": true, "create": true, "open": true, "read": true, "closeR": true, "write": true, "close": true, "update": true, "tombstone": true, "abort": true}

// metaSig: the MetaStore's content as text (pointer and block metadata, filters left out): a merge that does not
// commit leaves it exactly as it was.
func metaSig(meta bs.MetaStore) string {
	files, _ := AllFiles(meta.(*FaultMeta).MetaStore)
	var ps []string
	for _, f := range files {
		ps = append(ps, string(f.PointerBytes)+"="+fmt.Sprint(stripFilters(f.Metadata)))
	}
	sort.Strings(ps)
	return strings.Join(ps, "\n")
}

// prefilteredIDs: the answers of a few strict minmax prefilters (metadata-only decisions).
func prefilteredIDs(eng *bs.BloomSearchEngine) string {
	var out []string
	for _, cond := range []bs.NumericCondition{bs.NumericGreaterThanEqual(520), bs.NumericLessThanEqual(480), bs.NumericBetween(495, 505), bs.NumericGreaterThan(560)} {
		out = append(out, fmt.Sprint(idsOf(RunQuery(eng, bs.NewQuery().MatchPrefilter(bs.MinMax("k", cond)).Build()).Rows)))
	}
	return strings.Join(out, " | ")
}

func pointerSet(meta bs.MetaStore) string {
	files, _ := AllFiles(meta.(*FaultMeta).MetaStore)
	var ps []string
	for _, f := range files {
		ps = append(ps, string(f.PointerBytes))
	}
	sort.Strings(ps)
	return strings.Join(ps, ",")
}

func runC13(c *ctx) {
	c.r.Rule = "multi-group merges over random populations: a fault-free baseline run gives the call sequence (iterator, per group CreateFile/OpenFile/Read/Close/Write/Close, Update, source tombstones); then a failure is injected at every " +
		"position (exhaustive) on an identical copy and the return value, MetaStore content, tombstones and a match-all query are compared with the Lean merge protocol; plus concurrent Merge calls. " +
		"Non-trivial = the fault was reached; distinct by (population, position)"
	r := NewRng(c.seed, 1300)
	c06FSDirectory(c, "C13")
	pops := 4 * c.scale
	for pi := 0; pi < pops; pi++ {
		pop := buildMergePop(r, pi%2 == 1)
		base := pop.instantiate()
		before := pointerSet(base.Meta)
		beforeIDs, _ := visibleIDs(base.Eng)
		pristineSig := metaSig(base.Meta)
		pristinePre := prefilteredIDs(base.Eng)
		base.Data.ResetLog()
		stats, err := base.Eng.Merge(context.Background())
		if err != nil || stats == nil {
			c.r.Add(Finding{Kind: "disagreement", Check: "merge-baseline", Detail: fmt.Sprintf("fault-free merge failed: %v", err), Replay: map[string]any{"population": pi}})
			continue
		}
		log := opsOf(base.Data.Log(), mergeOps)
		after := pointerSet(base.Meta)
		// split the baseline log into groups
		var groups [][]string
		var cur []string
		sources := 0
		phase := "groups"
		for _, op := range log[1:] {
			switch {
			case op == "update":
				phase = "post"
			case phase == "post" && op == "tombstone":
				sources++
			case phase == "groups":
				cur = append(cur, op)
				if op == "close" {
					groups = append(groups, cur)
					cur = nil
				}
			}
		}
		c.r.Hit(fmt.Sprintf("merge.groups.%d", len(groups)))
		if len(groups) == 0 {
			continue
		}
		gt := (&toks{}).n(len(groups))
		for _, g := range groups {
			gt.n(len(g))
			for _, op := range g {
				gt.add(op)
			}
		}
		gt.n(sources)
		for k := 0; k < len(log)+1; k++ {
			env := pop.instantiate()
			env.Data.SetFaults([]string{"*"}, k+1)
			st, merr := env.Eng.Merge(context.Background())
			env.Data.ClearFaults()
			result := "ok"
			switch {
			case merr != nil && errors.Is(merr, bs.ErrPostCommitCleanup):
				result = "postcommit"
			case merr != nil:
				result = "err"
			}
			now := pointerSet(env.Meta)
			committed := now != before
			// The order in which partitions are processed inside a group follows Go map iteration, so the
			// k-th call differs between runs: the plan given to the model is read off this run's own log.
			runLog := env.Data.Log()
			var ops []string
			var errs []bool
			for _, cl := range runLog {
				if mergeOps[cl.Op] {
					ops = append(ops, cl.Op)
					errs = append(errs, cl.Err)
				}
			}
			failAt := -1
			for i, e := range errs {
				if e {
					failAt = i
					break
				}
			}
			var rgroups [][]string
			var rcur []string
			rsources := sources
			if len(ops) > 0 {
				inGroups := true
				for i := 1; i < len(ops) && inGroups; i++ {
					op := ops[i]
					if op == "update" {
						inGroups = false
						break
					}
					rcur = append(rcur, op)
					if op == "close" {
						rgroups = append(rgroups, rcur)
						rcur = nil
					}
					if i == failAt && op != "closeR" {
						if len(rcur) > 0 {
							rgroups = append(rgroups, append(rcur, "close"))
							rcur = nil
						}
						break
					}
				}
			}
			for len(rgroups) < len(groups) {
				rgroups = append(rgroups, groups[len(rgroups)])
			}
			rt := (&toks{}).n(len(rgroups))
			for _, g := range rgroups {
				rt.n(len(g))
				for _, op := range g {
					rt.add(op)
				}
			}
			rt.n(rsources)
			line := "mergep " + rt.String() + " 0"
			if failAt >= 0 {
				line = "mergep " + rt.String() + " 1 " + fmt.Sprint(failAt)
			}
			resp := c.m.Ask(line)
			var mRes, mCommitted string
			var mOutT, mSrcT int
			fmt.Sscan(resp, &mRes, &mCommitted, &mOutT, &mSrcT)
			reached := false
			for _, cl := range env.Data.Log() {
				if cl.Err {
					reached = true
				}
			}
			c.r.Case(reached, fmt.Sprint(pi, k))
			c.r.Hit("merge.result." + result)
			replay := map[string]any{"population": pi, "baseline_calls": strings.Join(log, " "), "fault_position": k, "result": result, "err": fmt.Sprint(merr), "stats_nil": st == nil, "metastore_before": before, "metastore_now": now, "model": resp}
			if len(c.r.Samples) < 2 && reached {
				c.r.Sample(replay)
			}
			// (which files get grouped may legitimately differ between runs: the candidate sort is unstable;
			// the committed state is judged by content — merge-content below — not by file names)
			_ = after
			if result != mRes || b2s(committed) != mCommitted {
				kind := "disagreement"
				if (result == "ok" && !committed && len(groups) > 0) || (result == "err" && committed) {
					kind = "violation"
				}
				c.r.Add(Finding{Kind: kind, Check: "merge-outcome", Detail: fmt.Sprintf("Merge returned %s committed=%v; Lean merge protocol says %s committed=%s", result, committed, mRes, mCommitted), Replay: replay})
			}
			if (result == "ok" || result == "postcommit") != (st != nil) {
				c.r.Add(Finding{Kind: "violation", Check: "merge-stats", Detail: fmt.Sprintf("stats nil=%v with result %s", st == nil, result), Replay: replay})
			}
			// tombstones: sources only after the commit; outputs only when not committed
			srcT, outT := 0, 0
			seenUpdateOK := false
			for _, cl := range env.Data.Log() {
				if cl.Op == "update" && !cl.Err {
					seenUpdateOK = true
				}
				if cl.Op == "tombstone" {
					if strings.Contains(before, cl.File) {
						srcT++
						if !seenUpdateOK {
							c.r.Add(Finding{Kind: "violation", Check: "source-tombstoned-before-commit", Detail: "a source file was tombstoned before MetaStore.Update succeeded: " + cl.File, Replay: replay})
						}
					} else {
						outT++
					}
				}
			}
			if srcT != mSrcT {
				c.r.Add(Finding{Kind: "disagreement", Check: "merge-source-tombstones", Detail: fmt.Sprintf("%d source tombstone calls, model %d", srcT, mSrcT), Replay: replay})
			}
			if !committed {
				// no output may remain referenced or published-and-untombstoned
				for name := range env.Data.Published() {
					if !strings.Contains(before, name) {
						c.r.Add(Finding{Kind: "violation", Check: "orphan-output", Detail: "merge did not commit but output file " + name + " remains in the DataStore untombstoned", Replay: replay})
					}
				}
			}
			// content is unchanged either way
			env.Data.ClearFaults()
			if !committed {
				// "the visible content is exactly as before": the metadata the MetaStore holds and what strict
				// prefilters answer from it included (a merge works on the MetaStore's own values)
				if sig := metaSig(env.Meta); sig != pristineSig {
					c.r.Add(Finding{Kind: "violation", Check: "metadata-changed-by-failed-merge", Detail: fmt.Sprintf("a merge that did not commit (fault at %d, result %s) changed the metadata the MetaStore holds", k, result), Replay: map[string]any{"population": pi, "fault_position": k, "before": trunc(pristineSig, 1500), "now": trunc(sig, 1500)}})
				}
				if pre := prefilteredIDs(env.Eng); pre != pristinePre {
					c.r.Add(Finding{Kind: "violation", Check: "merge-content", Detail: fmt.Sprintf("a merge that did not commit (fault at %d) changed what minmax-prefiltered queries return: %s -> %s", k, pristinePre, pre), Replay: replay})
				}
			}
			// whatever the merge did, every file the MetaStore references reads back through its own footer (a
			// directory-scanning MetaStore sees nothing else)
			if cf, err := AllFiles(env.Meta.(*FaultMeta).MetaStore); err == nil {
				pub := env.Data.Published()
				for _, f := range cf {
					if _, _, rerr := bs.ReadFileMetadata(bytes.NewReader(pub[string(f.PointerBytes)])); rerr != nil {
						c.r.Add(Finding{Kind: "violation", Check: "committed-file-unreadable", Detail: fmt.Sprintf("after a merge with a fault at %d (result %s, committed=%v) the MetaStore references file %s whose own footer does not read back (%v): served from a directory scan its rows are gone", k, result, committed, f.PointerBytes, rerr), Replay: replay})
						break
					}
				}
			}
			got, qerr := visibleIDs(env.Eng)
			if result != "postcommit" || true {
				if fmt.Sprint(got) != fmt.Sprint(beforeIDs) || qerr != nil {
					c.r.Add(Finding{Kind: "violation", Check: "merge-content", Detail: fmt.Sprintf("visible rows changed across a merge with a fault at %d: %v -> %v (query err %v)", k, beforeIDs, got, qerr), Replay: replay})
				}
			}
		}
		// concurrent merges: single flight, wherever the first merge is when the second is called (its MetaStore
		// listing, a source read, the output's create / write, the commit). The stores garbage-collect lazily here,
		// so a second merge over a stale listing would show up as duplicated rows.
		for _, parkOp := range []string{"iter", "yield", "open", "create", "write", "update"} {
			env := pop.instantiate()
			env.Meta.(*FaultMeta).yieldGate = true
			env.Data.DeferTombstone = true
			g := newGate(func(op, file string) bool { return op == parkOp })
			env.Data.Gate = g.hook
			done := make(chan error, 1)
			go func() { _, err := env.Eng.Merge(context.Background()); done <- err }()
			if g.waitBlocked(2 * time.Second) {
				env.Data.Gate = nil
				_, err2 := env.Eng.Merge(context.Background())
				c.r.Case(true, fmt.Sprint("single-flight", pi, parkOp))
				c.r.Hit("merge.single-flight." + parkOp)
				if !errors.Is(err2, bs.ErrMergeInProgress) {
					c.r.Add(Finding{Kind: "violation", Check: "merge-single-flight", Detail: fmt.Sprintf("a Merge called while another was parked at its %q step returned %v, want ErrMergeInProgress", parkOp, err2), Replay: map[string]any{"population": pi, "first_merge_parked_at": parkOp}})
				}
			}
			env.Data.Gate = nil
			g.release()
			<-done
			if got, qerr := visibleIDs(env.Eng); fmt.Sprint(got) != fmt.Sprint(beforeIDs) || qerr != nil {
				c.r.Add(Finding{Kind: "violation", Check: "merge-content", Detail: fmt.Sprintf("visible rows changed across two overlapping Merge calls (first parked at %q): %v -> %v (query err %v)", parkOp, beforeIDs, got, qerr), Replay: map[string]any{"population": pi, "first_merge_parked_at": parkOp}})
			}
		}
	}
	c.r.Exhaustive = true
}

// ---------------------------------------------------------------- C10

func runC10(c *ctx) {
	c.r.Rule = "deterministic message sequences (one producer, many partitions, oversized rows, batches crossing several limits at once, limits in {1,2,3,...}; MaxBufferedTime = 1h so only limits trigger) followed by Flush: " +
		"the files the engine wrote, in creation order, must equal the flush requests the Lean actor predicts (partitions, row ids in order, bytes, waiters from the hook events); plus a timing monitor for the time trigger with slack. " +
		"Non-trivial = at least one limit-triggered flush; distinct by message text"
	r := NewRng(c.seed, 1000)
	c10LimitFlushAnsweredUnderFaults(c)
	n := 60 * c.scale
	for i := 0; i < n; i++ {
		cfg := bs.DefaultBloomSearchEngineConfig()
		cfg.PartitionFunc = partitionFunc("p")
		cfg.MaxBufferedTime = time.Hour
		// the limits are about uncompressed bytes whatever the encoder buffers internally
		cfg.RowDataCompression = pick(r, []bs.CompressionType{bs.CompressionNone, bs.CompressionSnappy, bs.CompressionZstd})
		cfg.ZstdCompressionLevel = 1 + r.IntN(4)
		cfg.MaxBufferedRows = 1 + r.IntN(8)
		cfg.MaxBufferedBytes = pick(r, []int{60, 150, 400, 1 << 20})
		cfg.MaxRowGroupRows = 1 + r.IntN(5)
		cfg.MaxRowGroupBytes = pick(r, []int{50, 120, 300, 1 << 20})
		cfg.IngestBufferSize = 64
		rec := &recorder{}
		rec.install()
		env := NewEnv(cfg)
		t := (&toks{}).add("actor").n(cfg.MaxBufferedRows).n(cfg.MaxBufferedBytes).n(cfg.MaxRowGroupRows).n(cfg.MaxRowGroupBytes).n(1 << 40)
		nb := 3 + r.IntN(12)
		var mt toks
		nmsgs := 0
		id := 0
		chans := map[uintptr]int{}
		var dones []chan error
		for b := 0; b < nb; b++ {
			w := b + 1
			ch := make(chan error, 1)
			dones = append(dones, ch)
			chans[bs.VerifChanID(ch)] = w
			switch k := r.Pick(12); {
			case k == 0:
				env.Eng.IngestRows(context.Background(), nil, ch)
				mt.add("batch").n(w).n(0).n(0)
			case k == 1:
				env.Eng.IngestRows(context.Background(), []map[string]any{badRow()}, ch)
				mt.add("bad").n(w)
			default:
				nr := 1 + r.IntN(4)
				var rows []map[string]any
				var rt toks
				for j := 0; j < nr; j++ {
					id++
					row := map[string]any{"_id": id, "p": pick(r, []string{"a", "b", "c", ""})}
					if r.Chance(0.3) {
						row["pad"] = strings.Repeat("y", r.IntN(120))
					}
					rb, _ := mustMarshal(row)
					rows = append(rows, row)
					rt.n(id).s(row["p"].(string)).n(len(rb) + 4)
				}
				env.Eng.IngestRows(context.Background(), rows, ch)
				mt.add("batch").n(w).n(0).n(nr).add(rt.String())
			}
			nmsgs++
		}
		fch := nb + 1
		env.Eng.Flush(context.Background())
		mt.add("force").n(fch)
		nmsgs++
		for _, ch := range dones {
			<-ch
		}
		uninstallHook()
		t.n(nmsgs).add(mt.String())
		resp := c.m.Ask(t.String())
		// observed: files in creation order
		layout, err := (&History{Env: env}).Layout()
		if err != nil {
			c.r.Add(Finding{Kind: "violation", Check: "actor-layout", Detail: err.Error(), Replay: map[string]any{"line": t.String()}})
			env.Stop()
			continue
		}
		sort.Slice(layout, func(a, b int) bool { return layout[a].Ptr < layout[b].Ptr })
		// waiters per flush request from the hook events
		var waiterSets [][]int
		for _, e := range rec.snapshot() {
			if e.Kind == "enqueue_intent" {
				var ws []int
				for _, a := range e.Chans {
					if w, ok := chans[a]; ok {
						ws = append(ws, w)
					} else {
						ws = append(ws, fch)
					}
				}
				waiterSets = append(waiterSets, ws)
			}
		}
		var obs []string
		fi := 0
		for _, ws := range waiterSets {
			var o toks
			// a request with data corresponds to the next file; an ack-only request has none
			hasData := false
			if fi < len(layout) {
				// decide by matching: the model tells; here reconstruct from files lazily below
				hasData = true
			}
			_ = hasData
			o.add("W").n(len(ws))
			for _, w := range ws {
				o.n(w)
			}
			obs = append(obs, o.String())
		}
		var fileDesc []string
		for _, f := range layout {
			blocks := append([]BlockObs(nil), f.Blocks...)
			sort.Slice(blocks, func(a, b int) bool { return blocks[a].Meta.PartitionID < blocks[b].Meta.PartitionID })
			var o toks
			o.add("F").n(len(blocks))
			for _, b := range blocks {
				o.s(b.Meta.PartitionID).n(b.Meta.UncompressedSize).n(len(b.RowIDs))
				for _, x := range b.RowIDs {
					o.n(x)
				}
			}
			fileDesc = append(fileDesc, o.String())
		}
		// model effects: "n eff... | buffered ..."
		body := strings.SplitN(resp, " | ", 2)[0]
		var wantFiles, wantWaiters []string
		fields := strings.Fields(body)
		for j := 1; j < len(fields); {
			switch fields[j] {
			case "A":
				j += 3
			case "F":
				np := 0
				fmt.Sscan(fields[j+1], &np)
				k := j + 2
				for p := 0; p < np; p++ {
					nr := 0
					fmt.Sscan(fields[k+2], &nr)
					k += 3 + nr
				}
				desc := strings.Join(fields[j:k], " ")
				nw := 0
				fmt.Sscan(fields[k+1], &nw)
				wdesc := strings.Join(fields[k:k+2+nw], " ")
				if np > 0 {
					wantFiles = append(wantFiles, desc)
				}
				wantWaiters = append(wantWaiters, wdesc)
				j = k + 2 + nw
			default:
				fatal("bad actor response %q", resp)
			}
		}
		c.r.Case(len(wantFiles) > 1, t.String())
		c.r.Hit(fmt.Sprintf("actor.flushes.%d", min(len(wantFiles), 6)))
		replay := map[string]any{"line": t.String(), "model": resp, "files": fileDesc, "waiters": obs}
		if i < 2 {
			c.r.Sample(replay)
		}
		if strings.Join(fileDesc, " ; ") != strings.Join(wantFiles, " ; ") {
			kind := "disagreement"
			if len(fileDesc) < len(wantFiles) {
				kind = "violation" // a limit was reached but the rows were not flushed at that point
			}
			c.r.Add(Finding{Kind: kind, Check: "actor-flushes", Detail: fmt.Sprintf("the engine wrote %d files, the Lean actor predicts %d flush requests with data (a limit-triggered flush is missing or misplaced)", len(fileDesc), len(wantFiles)), Replay: replay})
		}
		if strings.Join(obs, " ; ") != strings.Join(wantWaiters, " ; ") {
			c.r.Add(Finding{Kind: "disagreement", Check: "actor-waiters", Detail: "waiters attached to the flush requests differ from the Lean actor", Replay: replay})
		}
		env.Stop()
	}
	// ---- timing monitor: the time trigger answers a lone batch without Flush or Stop
	for i := 0; i < 3*c.scale; i++ {
		ok := false
		var took time.Duration
		mbt := time.Duration(40+20*i) * time.Millisecond
		limit := 4*(mbt+100*time.Millisecond) + 200*time.Millisecond
		for attempt := 0; attempt < 3 && !ok; attempt++ {
			cfg := bs.DefaultBloomSearchEngineConfig()
			cfg.MaxBufferedTime = mbt
			env := NewEnv(cfg)
			ch := make(chan error, 1)
			start := time.Now()
			env.Eng.IngestRows(context.Background(), []map[string]any{{"_id": 1}}, ch)
			select {
			case <-ch:
				took = time.Since(start)
				ok = took <= limit
			case <-time.After(limit + time.Second):
				took = limit + time.Second
			}
			env.Stop()
		}
		c.r.Case(true, fmt.Sprint("time-trigger", mbt))
		c.r.Note("time trigger: MaxBufferedTime=%v answered after %v (limit with slack %v)", mbt, took, limit)
		if !ok {
			c.r.Add(Finding{Kind: "violation", Check: "time-trigger", Detail: fmt.Sprintf("a lone batch was not answered within %v of MaxBufferedTime=%v (+100ms tick) without Flush/Stop; took %v in three attempts", limit, mbt, took), Replay: map[string]any{"MaxBufferedTime": mbt.String()}})
		}
	}
	// ---- timing monitor 2: the age of the OLDEST buffered row counts - a trickle of later batches (each well
	// inside MaxBufferedTime of the previous one, no size limit reached) must not postpone the first answer
	for i := 0; i < 2*max(c.scale/2, 1)*2; i++ {
		mbt := time.Duration(120+40*i) * time.Millisecond
		limit := 4*(mbt+100*time.Millisecond) + 200*time.Millisecond
		ok := false
		var took time.Duration
		for attempt := 0; attempt < 3 && !ok; attempt++ {
			cfg := bs.DefaultBloomSearchEngineConfig()
			cfg.MaxBufferedTime = mbt
			partitioned := i%2 == 1
			if partitioned {
				// every later batch opens a new partition buffer: the buffer's age still starts at its oldest row
				cfg.PartitionFunc = partitionFunc("p")
			}
			env := NewEnv(cfg)
			first := make(chan error, 1)
			start := time.Now()
			env.Eng.IngestRows(context.Background(), []map[string]any{{"_id": 1, "p": "t1"}}, first)
			stopTrickle := make(chan struct{})
			var wg sync.WaitGroup
			wg.Add(1)
			go func() {
				defer wg.Done()
				for k := 2; ; k++ {
					select {
					case <-stopTrickle:
						return
					case <-time.After(mbt / 5):
						env.Eng.IngestRows(context.Background(), []map[string]any{{"_id": k, "p": fmt.Sprint("t", k)}}, nil)
					}
				}
			}()
			select {
			case <-first:
				took = time.Since(start)
				ok = took <= limit
			case <-time.After(limit + time.Second):
				took = limit + time.Second
			}
			close(stopTrickle)
			wg.Wait()
			env.Stop()
		}
		c.r.Case(true, fmt.Sprint("time-trigger-trickle", mbt))
		c.r.Note("time trigger under a trickle: MaxBufferedTime=%v, a batch every %v, first batch answered after %v (limit with slack %v)", mbt, mbt/5, took, limit)
		if !ok {
			c.r.Add(Finding{Kind: "violation", Check: "time-trigger-trickle", Detail: fmt.Sprintf("with a batch arriving every %v the first batch was not answered within %v of MaxBufferedTime=%v; took %v in three attempts (the buffer's age must be measured from its oldest row)", mbt/5, limit, mbt, took), Replay: map[string]any{"MaxBufferedTime": mbt.String(), "trickle": (mbt / 5).String()}})
		}
	}
}

// ---------------------------------------------------------------- FileSystemDataStore as both stores

// fsBoth wraps the shipped FileSystemDataStore used as DataStore and MetaStore: TombstoneFile can be made to
// fail (after which nothing is removed), and Update can be made to wait for its context to end and fail with
// the context's error (a MetaStore client that honours cancellation).
type fsBoth struct {
	*bs.FileSystemDataStore
	failTombstones atomic.Bool
	updateWaitsCtx atomic.Bool
	updateEntered  chan struct{}
}

func (f *fsBoth) TombstoneFile(ctx context.Context, p []byte) error {
	if f.failTombstones.Load() {
		return errInjected
	}
	return f.FileSystemDataStore.TombstoneFile(ctx, p)
}

func (f *fsBoth) Update(ctx context.Context, w []bs.WriteOperation, d []bs.DeleteOperation) error {
	if f.updateWaitsCtx.Load() {
		select {
		case f.updateEntered <- struct{}{}:
		default:
		}
		<-ctx.Done()
		return ctx.Err()
	}
	return f.FileSystemDataStore.Update(ctx, w, d)
}

func freshOverDir(cfg bs.BloomSearchEngineConfig, dir string) map[int]int {
	st := bs.NewFileSystemDataStore(dir)
	eng, err := bs.NewBloomSearchEngine(cfg, st, st)
	if err != nil {
		fatal("engine: %v", err)
	}
	got, _ := visibleIDs(eng)
	return got
}

// c06FSDirectory: acknowledgements stay truthful when the directory is the MetaStore.
//
//	(1) a merge commits and the tombstoning of its sources then fails: the merge is committed
//	    (ErrPostCommitCleanup), and every acknowledged row is still visible exactly once, here and to a fresh engine;
//	(2) Stop's deadline ends while a flush is between publishing its file and committing it, the commit fails
//	    with the context's error: the batch is acknowledged with an error and none of its rows is visible to a
//	    fresh engine over the directory.
func c06FSDirectory(c *ctx, which string) {
	// (1)
	for _, groups := range []int{1, 2} {
		dir, err := os.MkdirTemp("", "bsfsboth")
		if err != nil {
			fatal("tempdir: %v", err)
		}
		cfg := bs.DefaultBloomSearchEngineConfig()
		cfg.PartitionFunc = partitionFunc("p")
		cfg.MaxBufferedTime = time.Hour
		st := &fsBoth{FileSystemDataStore: bs.NewFileSystemDataStore(dir), updateEntered: make(chan struct{}, 1)}
		eng, err := bs.NewBloomSearchEngine(cfg, st, st)
		if err != nil {
			fatal("engine: %v", err)
		}
		eng.Start()
		id := 0
		want := map[int]int{}
		acks := 0
		for f := 0; f < 2; f++ {
			for g := 0; g < groups; g++ {
				id++
				done := make(chan error, 1)
				eng.IngestRows(context.Background(), []map[string]any{{"_id": id, "p": fmt.Sprint("g", g)}}, done)
				eng.Flush(context.Background())
				if <-done == nil {
					want[id] = 1
					acks++
				}
			}
		}
		st.failTombstones.Store(true)
		stats, merr := eng.Merge(context.Background())
		st.failTombstones.Store(false)
		here, _ := visibleIDs(eng)
		fresh := freshOverDir(cfg, dir)
		replay := map[string]any{"store": "FileSystemDataStore as DataStore and MetaStore", "merge_groups": groups, "merge_err": fmt.Sprint(merr), "merge_stats_nil": stats == nil, "acknowledged": acks}
		c.r.Case(true, fmt.Sprint("fs-postcommit-tombstone-failure", groups))
		c.r.Hit("fsdir.postcommit-tombstone-failure")
		if fmt.Sprint(here) != fmt.Sprint(want) || fmt.Sprint(fresh) != fmt.Sprint(want) {
			c.r.Add(Finding{Kind: "violation", Check: "ack-vs-visibility", Detail: fmt.Sprintf("after a merge whose source tombstones failed (Merge returned %v), this engine sees ids %v and a fresh engine over the directory %v; every acknowledged row must be visible exactly once: %v", merr, here, fresh, want), Replay: replay})
		}
		if which == "C13" && merr != nil && !errors.Is(merr, bs.ErrPostCommitCleanup) && fmt.Sprint(fresh) != fmt.Sprint(want) {
			c.r.Add(Finding{Kind: "violation", Check: "merge-outcome", Detail: fmt.Sprintf("Merge returned %v (not ErrPostCommitCleanup) but the visible content changed", merr), Replay: replay})
		}
		eng.Stop(context.Background())
		os.RemoveAll(dir)
	}
	if which != "C06" {
		return
	}
	// (2)
	for rep := 0; rep < 2; rep++ {
		dir, err := os.MkdirTemp("", "bsfsboth")
		if err != nil {
			fatal("tempdir: %v", err)
		}
		cfg := bs.DefaultBloomSearchEngineConfig()
		cfg.MaxBufferedTime = time.Hour
		st := &fsBoth{FileSystemDataStore: bs.NewFileSystemDataStore(dir), updateEntered: make(chan struct{}, 1)}
		eng, err := bs.NewBloomSearchEngine(cfg, st, st)
		if err != nil {
			fatal("engine: %v", err)
		}
		eng.Start()
		d0 := make(chan error, 1)
		eng.IngestRows(context.Background(), []map[string]any{{"_id": 1}}, d0)
		eng.Flush(context.Background())
		ack0 := <-d0
		st.updateWaitsCtx.Store(true)
		d1 := make(chan error, 1)
		eng.IngestRows(context.Background(), []map[string]any{{"_id": 2}, {"_id": 3}}, d1)
		go eng.Flush(context.Background())
		entered := false
		select {
		case <-st.updateEntered:
			entered = true
		case <-time.After(5 * time.Second):
		}
		sctx, scancel := context.WithTimeout(context.Background(), 60*time.Millisecond)
		serr := eng.Stop(sctx)
		scancel()
		var ack1 error
		answered := false
		select {
		case ack1 = <-d1:
			answered = true
		case <-time.After(3 * time.Second):
		}
		st.updateWaitsCtx.Store(false)
		fresh := freshOverDir(cfg, dir)
		replay := map[string]any{"store": "FileSystemDataStore as DataStore, a cancellation-honouring wrapper of it as MetaStore", "update_entered": entered, "stop_err": fmt.Sprint(serr), "ack_first_batch": fmt.Sprint(ack0), "ack_second_batch": fmt.Sprint(ack1), "answered": answered}
		c.r.Case(entered, fmt.Sprint("fs-deadline-between-publish-and-commit", rep))
		c.r.Hit("fsdir.deadline-between-publish-and-commit")
		if entered && answered && ack1 != nil && (fresh[2] != 0 || fresh[3] != 0) {
			c.r.Add(Finding{Kind: "violation", Check: "ack-vs-visibility", Detail: fmt.Sprintf("Stop's deadline ended while a flush was committing; the batch was acknowledged with %q, yet a fresh engine over the directory sees its rows: %v", ack1, fresh), Replay: replay})
		}
		if entered && answered && ack1 == nil && (fresh[2] != 1 || fresh[3] != 1) {
			c.r.Add(Finding{Kind: "violation", Check: "ack-vs-visibility", Detail: fmt.Sprintf("the batch was acknowledged nil but a fresh engine over the directory sees %v", fresh), Replay: replay})
		}
		if ack0 == nil && fresh[1] != 1 {
			c.r.Add(Finding{Kind: "violation", Check: "ack-vs-visibility", Detail: fmt.Sprintf("the first batch was acknowledged nil but a fresh engine over the directory sees %v", fresh), Replay: replay})
		}
		os.RemoveAll(dir)
	}
}

// c10LimitFlushAnsweredUnderFaults: a flush started by a limit (no Flush call) whose k-th store call fails, alone
// and together with the call after it (the cleanup of the failure fails too): the batches it covers are answered
// - with an error - and a later healthy batch is flushed and acknowledged as usual.
func c10LimitFlushAnsweredUnderFaults(c *ctx) {
	for k := 1; k <= 12; k++ {
		for _, double := range []bool{false, true} {
			cfg := bs.DefaultBloomSearchEngineConfig()
			cfg.MaxBufferedTime = time.Hour
			cfg.MaxBufferedRows = 2
			store := NewMemStore()
			if double {
				store.SetFaults([]string{"create", "write", "close", "abort", "update", "tombstone"}, k, k+1)
			} else {
				store.SetFaults([]string{"create", "write", "close", "update"}, k)
			}
			eng, err := bs.NewBloomSearchEngine(cfg, &FaultMeta{MetaStore: bs.NewMemoryMetaStore(), s: store}, store)
			if err != nil {
				fatal("engine: %v", err)
			}
			eng.Start()
			d1, d2 := make(chan error, 1), make(chan error, 1)
			eng.IngestRows(context.Background(), []map[string]any{{"_id": 1}}, d1)
			eng.IngestRows(context.Background(), []map[string]any{{"_id": 2}}, d2) // reaches MaxBufferedRows: flush
			answered := 0
			for _, d := range []chan error{d1, d2} {
				select {
				case <-d:
					answered++
				case <-time.After(5 * time.Second):
				}
			}
			store.ClearFaults()
			d3, d4 := make(chan error, 1), make(chan error, 1)
			eng.IngestRows(context.Background(), []map[string]any{{"_id": 3}}, d3)
			eng.IngestRows(context.Background(), []map[string]any{{"_id": 4}}, d4)
			later := 0
			for _, d := range []chan error{d3, d4} {
				select {
				case e := <-d:
					if e == nil {
						later++
					}
				case <-time.After(5 * time.Second):
				}
			}
			replay := map[string]any{"failing_call": k, "next_call_fails_too": double, "MaxBufferedRows": 2}
			c.r.Case(true, fmt.Sprint("limit-flush-faults", k, double))
			c.r.Hit("actor.limit-flush-under-faults")
			if answered != 2 {
				c.r.Add(Finding{Kind: "violation", Check: "limit-flush-unanswered", Detail: fmt.Sprintf("a flush started by MaxBufferedRows whose store call #%d failed (next call failing too: %v) answered %d of its 2 batches within 5s", k, double, answered), Replay: replay})
			}
			if later != 2 {
				c.r.Add(Finding{Kind: "violation", Check: "limit-flush-unanswered", Detail: fmt.Sprintf("after that failed flush, a later healthy pair of batches was acknowledged nil %d of 2 times within 5s", later), Replay: replay})
			}
			ctx, cancel := context.WithTimeout(context.Background(), 5*time.Second)
			eng.Stop(ctx)
			cancel()
		}
	}
}
