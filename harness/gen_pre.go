package main

// Generators and protocol encoders for numeric values, prefilter conditions and trees.

import (
	"fmt"
	"math"
	"math/big"
	"time"

	bs "github.com/danthegoodman1/bloomsearch"
)

type myInt int64
type myInt8 int8
type myUint uint64
type myUint16 uint16
type myF32 float32
type myF64 float64

// NumCase is one Go numeric value together with its exact mathematical value.
type NumCase struct {
	Go    any
	Kind  string
	Tok   string // numval tokens for the model ("int n" | "rat n d" | "pinf" | "ninf"); "" = not a (non-NaN) number
	Named bool
}

var i64Edges = []int64{math.MinInt64, math.MinInt64 + 1, -1 << 53, -1, 0, 1, 1 << 53, math.MaxInt64 - 1, math.MaxInt64}

func intTok(b *big.Int) string { return "int " + b.String() }

func floatTok(f float64) string {
	switch {
	case math.IsNaN(f):
		return ""
	case math.IsInf(f, 1):
		return "pinf"
	case math.IsInf(f, -1):
		return "ninf"
	}
	r := new(big.Rat).SetFloat64(f)
	return "rat " + r.Num().String() + " " + r.Denom().String()
}

func genInt64(r Rng) int64 {
	switch r.Pick(6) {
	case 0:
		return pick(r, i64Edges)
	case 1:
		return int64(r.IntN(21)) - 10
	case 2:
		return pick(r, i64Edges) + int64(r.IntN(5)) - 2 // may wrap; still a valid int64
	case 3:
		return int64(r.Uint64())
	case 4:
		return int64(r.IntN(2000)) - 1000
	default:
		return int64(r.Uint64() >> uint(r.IntN(64)))
	}
}

func genFloat(r Rng) float64 {
	switch r.Pick(9) {
	case 0:
		return float64(genInt64(r))
	case 1:
		return float64(genInt64(r)) + pick(r, []float64{0.5, -0.5, 0.25, 1e-9, -1e-9})
	case 2:
		return pick(r, []float64{9.223372036854775807e18, -9.223372036854775808e18, 9.223372036854774784e18, -9.223372036854774784e18, 9.223372036854777856e18, -9.223372036854777856e18, 1.8446744073709552e19})
	case 3:
		return pick(r, []float64{math.SmallestNonzeroFloat64, -math.SmallestNonzeroFloat64, math.MaxFloat64, -math.MaxFloat64, 1e308, -1e308, 0, math.Copysign(0, -1)})
	case 4:
		return pick(r, []float64{math.Inf(1), math.Inf(-1), math.NaN()})
	case 5:
		return (r.Float64() - 0.5) * 100
	case 6:
		return math.Float64frombits(r.Uint64())
	case 7:
		return float64(float32((r.Float64() - 0.5) * 1e6))
	default:
		return math.Ldexp(r.Float64()-0.5, r.IntN(140)-10)
	}
}

// genNum draws a Go numeric (or occasionally non-numeric) value of a random kind.
func genNum(r Rng) NumCase {
	bi := func(v int64) *big.Int { return big.NewInt(v) }
	bu := func(v uint64) *big.Int { return new(big.Int).SetUint64(v) }
	genU64 := func() uint64 {
		switch r.Pick(4) {
		case 0:
			return pick(r, []uint64{0, 1, math.MaxInt64 - 1, math.MaxInt64, math.MaxInt64 + 1, math.MaxInt64 + 2, math.MaxUint64 - 1, math.MaxUint64})
		case 1:
			return r.Uint64()
		default:
			return uint64(r.IntN(1000))
		}
	}
	switch r.Pick(22) {
	case 0:
		v := int(genInt64(r))
		return NumCase{Go: v, Kind: "int", Tok: intTok(bi(int64(v)))}
	case 1:
		v := int8(genInt64(r))
		return NumCase{Go: v, Kind: "int8", Tok: intTok(bi(int64(v)))}
	case 2:
		v := int16(genInt64(r))
		return NumCase{Go: v, Kind: "int16", Tok: intTok(bi(int64(v)))}
	case 3:
		v := int32(genInt64(r))
		return NumCase{Go: v, Kind: "int32", Tok: intTok(bi(int64(v)))}
	case 4, 5:
		v := genInt64(r)
		return NumCase{Go: v, Kind: "int64", Tok: intTok(bi(v))}
	case 6:
		v := uint(genU64())
		return NumCase{Go: v, Kind: "uint", Tok: intTok(bu(uint64(v)))}
	case 7:
		v := uint8(genU64())
		return NumCase{Go: v, Kind: "uint8", Tok: intTok(bu(uint64(v)))}
	case 8:
		v := uint16(genU64())
		return NumCase{Go: v, Kind: "uint16", Tok: intTok(bu(uint64(v)))}
	case 9:
		v := uint32(genU64())
		return NumCase{Go: v, Kind: "uint32", Tok: intTok(bu(uint64(v)))}
	case 10, 11:
		v := genU64()
		return NumCase{Go: v, Kind: "uint64", Tok: intTok(bu(v))}
	case 12:
		v := float32(genFloat(r))
		return NumCase{Go: v, Kind: "float32", Tok: floatTok(float64(v))}
	case 13, 14, 15:
		v := genFloat(r)
		return NumCase{Go: v, Kind: "float64", Tok: floatTok(v)}
	case 16:
		v := time.Duration(genInt64(r))
		return NumCase{Go: v, Kind: "time.Duration", Tok: intTok(bi(int64(v))), Named: true}
	case 17:
		v := myInt(genInt64(r))
		return NumCase{Go: v, Kind: "myInt(int64)", Tok: intTok(bi(int64(v))), Named: true}
	case 18:
		v := myUint(genU64())
		return NumCase{Go: v, Kind: "myUint(uint64)", Tok: intTok(bu(uint64(v))), Named: true}
	case 19:
		v := myF64(genFloat(r))
		return NumCase{Go: v, Kind: "myF64(float64)", Tok: floatTok(float64(v)), Named: true}
	case 20:
		switch r.Pick(3) {
		case 0:
			v := myF32(genFloat(r))
			return NumCase{Go: v, Kind: "myF32(float32)", Tok: floatTok(float64(v)), Named: true}
		case 1:
			v := myInt8(genInt64(r))
			return NumCase{Go: v, Kind: "myInt8(int8)", Tok: intTok(bi(int64(v))), Named: true}
		default:
			v := myUint16(genU64())
			return NumCase{Go: v, Kind: "myUint16(uint16)", Tok: intTok(bu(uint64(v))), Named: true}
		}
	default:
		return pick(r, []NumCase{{Go: "12", Kind: "string"}, {Go: true, Kind: "bool"}, {Go: nil, Kind: "nil"}, {Go: []int{1}, Kind: "slice"}, {Go: map[string]any{"a": 1}, Kind: "map"}})
	}
}

// ---- conditions

var knownOps = []bs.QueryOperator{bs.OpEqual, bs.OpNotEqual, bs.OpGreaterThan, bs.OpGreaterThanEqual, bs.OpLessThan, bs.OpLessThanEqual, bs.OpIn, bs.OpNotIn, bs.OpBetween, bs.OpNotBetween}

func genOp(r Rng) bs.QueryOperator {
	if r.Chance(0.04) {
		return pick(r, []bs.QueryOperator{"", "eq", "LIKE", "NOT", "BETWEEN "})
	}
	return pick(r, knownOps)
}

func genNumCond(r Rng, around []int64) bs.NumericCondition {
	val := func() int64 {
		if len(around) > 0 && r.Chance(0.7) {
			return pick(r, around) + int64(r.IntN(3)) - 1
		}
		return genInt64(r)
	}
	c := bs.NumericCondition{Operator: genOp(r)}
	c.Value = val()
	c.Min, c.Max = val(), val()
	if r.Chance(0.7) && c.Min > c.Max {
		c.Min, c.Max = c.Max, c.Min
	}
	n := r.IntN(4)
	for i := 0; i < n; i++ {
		c.Values = append(c.Values, val())
	}
	return c
}

func numCondTok(t *toks, c bs.NumericCondition) {
	t.s(string(c.Operator)).i(c.Value).i(c.Min).i(c.Max).n(len(c.Values))
	for _, v := range c.Values {
		t.i(v)
	}
}

var partPool = []string{"", "a", "b", "ab", "b ", "B", "é", "zz", "p1", "p2", "p3", "日本"}

func genStrCond(r Rng) bs.StringCondition {
	c := bs.StringCondition{Operator: genOp(r), Value: pick(r, partPool), Min: pick(r, partPool), Max: pick(r, partPool)}
	n := r.IntN(4)
	for i := 0; i < n; i++ {
		c.Values = append(c.Values, pick(r, partPool))
	}
	return c
}

func strCondTok(t *toks, c bs.StringCondition) {
	t.s(string(c.Operator)).s(c.Value).s(c.Min).s(c.Max).n(len(c.Values))
	for _, v := range c.Values {
		t.s(v)
	}
}

var mmKeys = []string{"k1", "k2", "k3"}

func genPreCond(r Rng, around []int64) *bs.PrefilterCondition {
	c := &bs.PrefilterCondition{}
	switch r.Pick(20) {
	case 0:
		c.ConditionType = "OTHER"
	case 1:
		c.ConditionType = bs.PrefilterConditionPartition // nil PartitionCondition
		return c
	case 2:
		c.ConditionType = bs.PrefilterConditionMinMax // nil MinMaxCondition
		c.MinMaxFieldName = pick(r, mmKeys)
		return c
	default:
		if r.Chance(0.4) {
			c.ConditionType = bs.PrefilterConditionPartition
		} else {
			c.ConditionType = bs.PrefilterConditionMinMax
		}
	}
	if r.Chance(0.9) || c.ConditionType == bs.PrefilterConditionPartition {
		sc := genStrCond(r)
		if c.ConditionType == bs.PrefilterConditionPartition || r.Chance(0.1) {
			c.PartitionCondition = &sc
		}
	}
	if c.ConditionType != bs.PrefilterConditionPartition || r.Chance(0.1) {
		nc := genNumCond(r, around)
		c.MinMaxCondition = &nc
		c.MinMaxFieldName = pick(r, mmKeys)
		if r.Chance(0.05) {
			c.MinMaxFieldName = "absent"
		}
	}
	return c
}

func genPreExpr(r Rng, depth int, around []int64) bs.PrefilterExpression {
	k := r.Pick(10)
	if depth <= 0 && k >= 4 {
		k = r.Pick(4)
	}
	switch {
	case k < 4:
		e := bs.PrefilterExpression{ExpressionType: bs.PrefilterExpressionCondition}
		if !r.Chance(0.05) {
			e.Condition = genPreCond(r, around)
		}
		return e
	case k < 9:
		e := bs.PrefilterExpression{ExpressionType: bs.PrefilterExpressionAnd}
		if k >= 7 {
			e.ExpressionType = bs.PrefilterExpressionOr
		}
		n := r.IntN(4)
		for i := 0; i < n; i++ {
			e.Children = append(e.Children, genPreExpr(r, depth-1, around))
		}
		if r.Chance(0.05) {
			e.Condition = genPreCond(r, around) // ignored by evaluation for AND/OR nodes
		}
		return e
	default:
		return bs.PrefilterExpression{ExpressionType: "XOR", Children: []bs.PrefilterExpression{genPreExpr(r, depth-1, around)}}
	}
}

func preCondTok(t *toks, c *bs.PrefilterCondition) {
	t.s(string(c.ConditionType))
	if c.PartitionCondition == nil {
		t.add("N")
	} else {
		t.add("S")
		strCondTok(t, *c.PartitionCondition)
	}
	t.s(c.MinMaxFieldName)
	if c.MinMaxCondition == nil {
		t.add("N")
	} else {
		t.add("S")
		numCondTok(t, *c.MinMaxCondition)
	}
}

func preExprTok(t *toks, e *bs.PrefilterExpression) {
	t.add("E").s(string(e.ExpressionType))
	if e.Condition == nil {
		t.add("N")
	} else {
		t.add("S")
		preCondTok(t, e.Condition)
	}
	t.n(len(e.Children))
	for i := range e.Children {
		preExprTok(t, &e.Children[i])
	}
}

func prefilterTok(t *toks, q *bs.QueryPrefilter) {
	if q == nil || q.Expression == nil {
		t.add("N")
		return
	}
	t.add("S")
	preExprTok(t, q.Expression)
}

func metaTok(t *toks, m *bs.DataBlockMetadata) {
	t.s(m.PartitionID)
	keys := make([]string, 0, len(m.MinMaxIndexes))
	for k := range m.MinMaxIndexes {
		keys = append(keys, k)
	}
	sortStrings(keys)
	t.n(len(keys))
	for _, k := range keys {
		t.s(k).i(m.MinMaxIndexes[k].Min).i(m.MinMaxIndexes[k].Max)
	}
}

func describeNum(c NumCase) string { return fmt.Sprintf("%s(%v)", c.Kind, c.Go) }
