package main

// An instrumented in-memory DataStore (call log, fault injection, gating) and engine helpers.

import (
	"bytes"
	"context"
	"errors"
	"fmt"
	"io"
	"runtime"
	"strconv"
	"strings"
	"sync"
	"sync/atomic"
	"time"

	bs "github.com/danthegoodman1/bloomsearch"
)

var errInjected = errors.New("injected store failure")

// StoreCall is one logged DataStore / MetaStore call.
type StoreCall struct {
	Seq  int    `json:"seq"`
	Op   string `json:"op"` // create write close abort open read seek closeR tombstone update iter
	File string `json:"file,omitempty"`
	N    int    `json:"n,omitempty"`
	Err  bool   `json:"err,omitempty"`
	Gor  uint64 `json:"-"` // calling goroutine
}

// goid returns the current goroutine's id (parsed from the stack header; diagnostics only).
func goid() uint64 {
	var buf [64]byte
	n := runtime.Stack(buf[:], false)
	f := strings.Fields(string(buf[:n]))
	if len(f) < 2 {
		return 0
	}
	id, _ := strconv.ParseUint(f[1], 10, 64)
	return id
}

// MemStore is an in-memory DataStore. Published files are visible to OpenFile only after a
// successful Close of their writer (like the filesystem store).
type MemStore struct {
	mu      sync.Mutex
	files   map[string][]byte // published
	pending map[string]*memWriter
	tomb    []string
	next    int
	log     []StoreCall
	seq     int
	noAbort bool // writers do not implement Abort
	// FailAt: fail the k-th call (1-based, counted over calls matching FailOps; 0 = never).
	failAt    map[int]bool
	failOps   map[string]bool
	callCount int
	// Gate, when non-nil, is called before every call (may block).
	Gate func(op, file string)

	openHandles   atomic.Int64
	readsInFlight atomic.Int64
	maxReads      atomic.Int64
	handleLog     []handleEvent
	extents       []ReadExtent
	nextHandle    int
	ReadDelay     time.Duration
	OpenDelay     time.Duration // OpenFile takes this long and counts as a call in progress in the read gauge
	// DeferTombstone: tombstoned files stay readable (a store that garbage-collects lazily)
	DeferTombstone bool
	// HonourCtx: CreateFile, OpenFile, TombstoneFile (and FaultMeta.Update) refuse a context that is already
	// done, as a store backed by a network client would; the refusal is logged as a failed call with N = -1.
	HonourCtx bool
	// CloseErrEvery: every k-th Close of a read handle reports an error after releasing the handle (a remote
	// stream reporting a deferred transport error); 0 = never.
	CloseErrEvery int64
	closeCount    atomic.Int64
	// OpenWaitsForCtx: OpenFile blocks until the context it was given is done (a remote store interrupted only
	// through its context) or OpenRelease is closed, then fails
	OpenWaitsForCtx atomic.Bool
	OpenRelease     chan struct{}
	OpensWaiting    atomic.Int64
	// ShortReads: every Read returns at most this many bytes (0 = as many as asked): io.Reader allows it
	ShortReads int
}

func (s *MemStore) refused(ctx context.Context, op, file string) bool {
	if !s.HonourCtx || ctx.Err() == nil {
		return false
	}
	s.mu.Lock()
	s.seq++
	s.log = append(s.log, StoreCall{Seq: s.seq, Op: op, File: file, N: -1, Err: true, Gor: goid()})
	s.mu.Unlock()
	return true
}

type handleEvent struct {
	Handle int
	Op     string
	Gor    uint64
}

func NewMemStore() *MemStore {
	return &MemStore{files: map[string][]byte{}, pending: map[string]*memWriter{}, failAt: map[int]bool{}, failOps: map[string]bool{}}
}

// SetFaults arms failures: the k-th (1-based) call among the listed ops fails.
func (s *MemStore) SetFaults(ops []string, ks ...int) {
	s.mu.Lock()
	defer s.mu.Unlock()
	s.failOps = map[string]bool{}
	for _, o := range ops {
		s.failOps[o] = true
	}
	s.failAt = map[int]bool{}
	for _, k := range ks {
		s.failAt[k] = true
	}
	s.callCount = 0
}

func (s *MemStore) ClearFaults() { s.SetFaults(nil) }

// call logs an op and decides whether it fails. Must be called without s.mu.
func (s *MemStore) call(op, file string, n int) bool {
	if g := s.Gate; g != nil {
		g(op, file)
	}
	gid := goid()
	s.mu.Lock()
	defer s.mu.Unlock()
	fail := false
	if s.failOps[op] || s.failOps["*"] {
		s.callCount++
		if s.failAt[s.callCount] {
			fail = true
		}
	}
	s.seq++
	s.log = append(s.log, StoreCall{Seq: s.seq, Op: op, File: file, N: n, Err: fail, Gor: gid})
	return fail
}

// Mark appends a harness-level event to the call log.
func (s *MemStore) Mark(op, detail string) {
	s.mu.Lock()
	s.seq++
	s.log = append(s.log, StoreCall{Seq: s.seq, Op: op, File: detail})
	s.mu.Unlock()
}

func (s *MemStore) Log() []StoreCall {
	s.mu.Lock()
	defer s.mu.Unlock()
	return append([]StoreCall(nil), s.log...)
}

func (s *MemStore) ResetLog() {
	s.mu.Lock()
	s.log = nil
	s.seq = 0
	s.extents = nil
	s.mu.Unlock()
}

// CountCalls counts logged calls among ops ("*" = all).
func (s *MemStore) CountCalls(ops ...string) int {
	set := map[string]bool{}
	for _, o := range ops {
		set[o] = true
	}
	n := 0
	for _, c := range s.Log() {
		if set["*"] || set[c.Op] {
			n++
		}
	}
	return n
}

func (s *MemStore) Published() map[string][]byte {
	s.mu.Lock()
	defer s.mu.Unlock()
	out := map[string][]byte{}
	for k, v := range s.files {
		out[k] = v
	}
	return out
}

func (s *MemStore) Put(name string, data []byte) {
	s.mu.Lock()
	s.files[name] = data
	s.mu.Unlock()
}

func (s *MemStore) Tombstoned() []string {
	s.mu.Lock()
	defer s.mu.Unlock()
	return append([]string(nil), s.tomb...)
}

type memWriter struct {
	s      *MemStore
	name   string
	buf    bytes.Buffer
	closed bool
}

type memWriterAbort struct{ *memWriter }

func (w *memWriter) Write(p []byte) (int, error) {
	if w.s.call("write", w.name, len(p)) {
		return 0, errInjected
	}
	return w.buf.Write(p)
}

func (w *memWriter) Close() error {
	if w.s.call("close", w.name, 0) {
		return errInjected
	}
	w.s.mu.Lock()
	defer w.s.mu.Unlock()
	if w.closed {
		return nil
	}
	w.closed = true
	w.s.files[w.name] = append([]byte(nil), w.buf.Bytes()...)
	delete(w.s.pending, w.name)
	return nil
}

func (w memWriterAbort) Abort() error {
	failed := w.s.call("abort", w.name, 0)
	w.s.mu.Lock()
	defer w.s.mu.Unlock()
	delete(w.s.pending, w.name)
	if failed {
		return errInjected
	}
	return nil
}

func (s *MemStore) CreateFile(ctx context.Context) (io.WriteCloser, []byte, error) {
	s.mu.Lock()
	s.next++
	name := fmt.Sprintf("f%04d", s.next)
	s.mu.Unlock()
	if s.refused(ctx, "create", name) {
		return nil, nil, ctx.Err()
	}
	if s.call("create", name, 0) {
		return nil, nil, errInjected
	}
	w := &memWriter{s: s, name: name}
	s.mu.Lock()
	s.pending[name] = w
	s.mu.Unlock()
	if s.noAbort {
		return w, []byte(name), nil
	}
	return memWriterAbort{w}, []byte(name), nil
}

type memReader struct {
	s      *MemStore
	name   string
	r      *bytes.Reader
	id     int
	closed atomic.Bool
	busy   atomic.Int32
}

func (s *MemStore) OpenFile(ctx context.Context, ptr []byte) (io.ReadSeekCloser, error) {
	name := string(ptr)
	if s.OpenWaitsForCtx.Load() {
		s.OpensWaiting.Add(1)
		defer s.OpensWaiting.Add(-1)
		select {
		case <-ctx.Done():
			return nil, ctx.Err()
		case <-s.OpenRelease:
			return nil, errors.New("store gave up")
		}
	}
	if d := s.OpenDelay; d > 0 {
		cur := s.readsInFlight.Add(1)
		for {
			m := s.maxReads.Load()
			if cur <= m || s.maxReads.CompareAndSwap(m, cur) {
				break
			}
		}
		time.Sleep(d)
		defer s.readsInFlight.Add(-1)
	}
	if s.call("open", name, 0) {
		return nil, errInjected
	}
	s.mu.Lock()
	data, ok := s.files[name]
	s.nextHandle++
	id := s.nextHandle
	s.mu.Unlock()
	if !ok {
		return nil, fmt.Errorf("memstore: no such file %s", name)
	}
	s.openHandles.Add(1)
	return &memReader{s: s, name: name, r: bytes.NewReader(data), id: id}, nil
}

var errHandleMisuse = errors.New("HANDLE MISUSE")

func (r *memReader) enter(op string) {
	if r.closed.Load() {
		r.s.misuse("use-after-close " + op + " " + r.name)
	}
	if r.busy.Add(1) != 1 {
		r.s.misuse("concurrent-use " + op + " " + r.name)
	}
}
func (r *memReader) leave() { r.busy.Add(-1) }

func (s *MemStore) misuse(what string) {
	s.mu.Lock()
	s.log = append(s.log, StoreCall{Seq: -1, Op: "MISUSE", File: what})
	s.mu.Unlock()
}

func (r *memReader) Read(p []byte) (int, error) {
	r.enter("read")
	defer r.leave()
	cur := r.s.readsInFlight.Add(1)
	for {
		m := r.s.maxReads.Load()
		if cur <= m || r.s.maxReads.CompareAndSwap(m, cur) {
			break
		}
	}
	defer r.s.readsInFlight.Add(-1)
	if r.s.call("read", r.name, len(p)) {
		return 0, errInjected
	}
	if d := r.s.ReadDelay; d > 0 {
		time.Sleep(d)
	}
	off, _ := r.r.Seek(0, io.SeekCurrent)
	if k := r.s.ShortReads; k > 0 && len(p) > k {
		p = p[:k]
	}
	n, err := r.r.Read(p)
	r.s.mu.Lock()
	r.s.extents = append(r.s.extents, ReadExtent{File: r.name, Off: int(off), Len: n, Handle: r.id})
	r.s.mu.Unlock()
	return n, err
}

// ReadExtent is one successful DataStore read: which bytes of which file, through which handle.
type ReadExtent struct {
	File   string
	Off    int
	Len    int
	Handle int
}

func (s *MemStore) Extents() []ReadExtent {
	s.mu.Lock()
	defer s.mu.Unlock()
	return append([]ReadExtent(nil), s.extents...)
}

// Misuses lists handle-discipline breaches (use after close, concurrent use, double close).
func (s *MemStore) Misuses() []string {
	var out []string
	for _, c := range s.Log() {
		if c.Op == "MISUSE" {
			out = append(out, c.File)
		}
	}
	return out
}

func (s *MemStore) OpenHandles() int64        { return s.openHandles.Load() }
func (s *MemStore) MaxConcurrentReads() int64 { return s.maxReads.Load() }
func (s *MemStore) ResetReadGauge()           { s.maxReads.Store(0) }

func (r *memReader) Seek(off int64, whence int) (int64, error) {
	r.enter("seek")
	defer r.leave()
	pos, err := r.r.Seek(off, whence)
	r.s.mu.Lock()
	r.s.seq++
	r.s.log = append(r.s.log, StoreCall{Seq: r.s.seq, Op: "seek", File: r.name, N: int(pos)})
	r.s.mu.Unlock()
	return pos, err
}

func (r *memReader) Close() error {
	if r.closed.Swap(true) {
		r.s.misuse("double-close " + r.name)
		return nil
	}
	r.s.openHandles.Add(-1)
	r.s.call("closeR", r.name, 0)
	if k := r.s.CloseErrEvery; k > 0 && r.s.closeCount.Add(1)%k == 0 {
		return errors.New("deferred transport error reported at Close (the handle is released)")
	}
	return nil
}

func (s *MemStore) TombstoneFile(ctx context.Context, ptr []byte) error {
	name := string(ptr)
	if s.refused(ctx, "tombstone", name) {
		return ctx.Err()
	}
	failed := s.call("tombstone", name, 0)
	if failed {
		return errInjected
	}
	s.mu.Lock()
	if !s.DeferTombstone {
		delete(s.files, name)
	}
	delete(s.pending, name)
	s.tomb = append(s.tomb, name)
	s.mu.Unlock()
	return nil
}

// FaultMeta wraps a MetaStore, logging Update/iteration into the MemStore's log and failing on demand.
type FaultMeta struct {
	bs.MetaStore
	s          *MemStore
	iterFaults bool // also log / fail GetMaybeFilesForQuery as op "iter"
	yieldGate  bool // log (and gate) every yielded file as op "yield"
}

func (m *FaultMeta) Update(ctx context.Context, w []bs.WriteOperation, d []bs.DeleteOperation) error {
	var ws, ds []string
	for _, x := range w {
		ws = append(ws, string(x.FilePointerBytes))
	}
	for _, x := range d {
		ds = append(ds, string(x.FilePointerBytes))
	}
	if m.s.refused(ctx, "update", "w="+strings.Join(ws, ",")+";d="+strings.Join(ds, ",")) {
		return ctx.Err()
	}
	if m.s.call("update", "w="+strings.Join(ws, ",")+";d="+strings.Join(ds, ","), len(w)+len(d)) {
		return errInjected
	}
	return m.MetaStore.Update(ctx, w, d)
}

// ---------------------------------------------------------------- engine helpers

type Env struct {
	Cfg  bs.BloomSearchEngineConfig
	Meta bs.MetaStore
	Data *MemStore
	Eng  *bs.BloomSearchEngine
}

func NewEnv(cfg bs.BloomSearchEngineConfig) *Env {
	data := NewMemStore()
	meta := &FaultMeta{MetaStore: bs.NewMemoryMetaStore(), s: data}
	eng, err := bs.NewBloomSearchEngine(cfg, meta, data)
	if err != nil {
		fatal("engine: %v", err)
	}
	eng.Start()
	return &Env{Cfg: cfg, Meta: meta, Data: data, Eng: eng}
}

// Reopen builds a fresh engine over the same stores (the old one is stopped first).
func (e *Env) Reopen() {
	ctx, cancel := context.WithTimeout(context.Background(), 20*time.Second)
	defer cancel()
	e.Eng.Stop(ctx)
	eng, err := bs.NewBloomSearchEngine(e.Cfg, e.Meta, e.Data)
	if err != nil {
		fatal("engine: %v", err)
	}
	eng.Start()
	e.Eng = eng
}

func (e *Env) Stop() {
	ctx, cancel := context.WithTimeout(context.Background(), 20*time.Second)
	defer cancel()
	e.Eng.Stop(ctx)
}

// Ingest sends one batch and waits for its ack.
func (e *Env) Ingest(rows []map[string]any) error {
	done := make(chan error, 1)
	if err := e.Eng.IngestRows(context.Background(), rows, done); err != nil {
		return err
	}
	return nil
}

// IngestWait ingests and then flushes, returning the batch's ack.
func (e *Env) IngestWait(rows []map[string]any) error {
	done := make(chan error, 1)
	if err := e.Eng.IngestRows(context.Background(), rows, done); err != nil {
		return err
	}
	if err := e.Eng.Flush(context.Background()); err != nil {
		select {
		case a := <-done:
			return a
		default:
		}
		return err
	}
	return <-done
}

type QueryOut struct {
	Rows  []map[string]any
	Err   error
	Stats bs.QueryStats
}

func (e *Env) Query(q *bs.Query) QueryOut {
	return RunQuery(e.Eng, q)
}

func RunQuery(eng *bs.BloomSearchEngine, q *bs.Query) QueryOut {
	ctx, cancel := context.WithTimeout(context.Background(), 60*time.Second)
	defer cancel()
	res, err := eng.Query(ctx, q)
	if err != nil {
		return QueryOut{Err: err}
	}
	defer res.Close()
	var out QueryOut
	for res.Next() {
		out.Rows = append(out.Rows, res.Row())
	}
	out.Err = res.Err()
	out.Stats = res.Stats()
	return out
}

// AllFiles lists the metastore's files (no prefilter).
func AllFiles(meta bs.MetaStore) ([]bs.MaybeFile, error) {
	var out []bs.MaybeFile
	for f, err := range meta.GetMaybeFilesForQuery(context.Background(), nil) {
		if err != nil {
			return nil, err
		}
		out = append(out, f)
	}
	return out, nil
}
