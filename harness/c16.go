package main

// C16: FileSystemDataStore driven through random call sequences (several concurrent writers, forced
// name collisions, arbitrary payloads) on a real temporary directory, compared call by call and by
// final directory content with the Lean directory model.

import (
	"bytes"
	"context"
	"encoding/hex"
	"fmt"
	"github.com/bits-and-blooms/bloom/v3"
	"io"
	"os"
	"path/filepath"
	"sort"
	"strings"

	bs "github.com/danthegoodman1/bloomsearch"
)

func init() { props["C16"] = runC16 }

func hexb(b []byte) string {
	if len(b) == 0 {
		return "-"
	}
	return hex.EncodeToString(b)
}

type fsRun struct {
	dir     string
	store   *bs.FileSystemDataStore
	draws   []string
	writers []io.WriteCloser
	ops     toks
	nops    int
	results []string
	fresh   int
	viol    []Finding // direct property monitors (independent of the model)
}

func newFsRun() *fsRun { return newFsRunIn("") }

// newFsRunIn: the store's root is a directory with the given name under a fresh temporary directory
// ("" = the temporary directory itself).
func newFsRunIn(rootName string) *fsRun {
	dir, err := os.MkdirTemp("", "bsfs")
	if err != nil {
		fatal("tempdir: %v", err)
	}
	if rootName != "" {
		dir = filepath.Join(dir, rootName)
		if err := os.Mkdir(dir, 0o700); err != nil {
			fatal("mkdir: %v", err)
		}
	}
	fr := &fsRun{dir: dir, store: bs.NewFileSystemDataStore(dir)}
	bs.VerifSetDrawFileName(fr.store, func() string {
		if len(fr.draws) == 0 {
			fr.fresh++
			return fmt.Sprintf("unscripted%d", fr.fresh)
		}
		d := fr.draws[0]
		fr.draws = fr.draws[1:]
		return d
	})
	return fr
}

func (fr *fsRun) cleanup() {
	if strings.HasPrefix(filepath.Base(fr.dir), "bsfs") {
		os.RemoveAll(fr.dir)
	} else {
		os.RemoveAll(filepath.Dir(fr.dir))
	}
}

func (fr *fsRun) create(draws []string) {
	fr.draws = append([]string(nil), draws...)
	w, ptr, err := fr.store.CreateFile(context.Background())
	fr.ops.add("create").n(len(draws))
	for _, d := range draws {
		fr.ops.s(d)
	}
	fr.nops++
	if err != nil {
		fr.results = append(fr.results, "err")
		return
	}
	fr.writers = append(fr.writers, w)
	base := strings.TrimSuffix(filepath.Base(string(ptr)), ".dat")
	fr.results = append(fr.results, "C "+hx(base))
}

func (fr *fsRun) errRes(err error) {
	if err != nil {
		fr.results = append(fr.results, "err")
	} else {
		fr.results = append(fr.results, "ok")
	}
}

func (fr *fsRun) write(w int, data []byte) {
	fr.ops.add("write").n(w).add(hexb(data))
	fr.nops++
	if w >= len(fr.writers) {
		fr.results = append(fr.results, "err")
		return
	}
	_, err := fr.writers[w].Write(data)
	fr.errRes(err)
}

func (fr *fsRun) close(w int) {
	fr.ops.add("close").n(w)
	fr.nops++
	if w >= len(fr.writers) {
		fr.results = append(fr.results, "err")
		return
	}
	fr.errRes(fr.writers[w].Close())
}

func (fr *fsRun) abort(w int) {
	fr.ops.add("abort").n(w)
	fr.nops++
	if w >= len(fr.writers) {
		fr.results = append(fr.results, "err")
		return
	}
	fr.errRes(fr.writers[w].(interface{ Abort() error }).Abort())
}

func (fr *fsRun) tombstone(base string) {
	fr.ops.add("tomb").s(base)
	fr.nops++
	fr.errRes(fr.store.TombstoneFile(context.Background(), []byte(filepath.Join(fr.dir, base+".dat"))))
	for _, suffix := range []string{".dat", ".tmp"} {
		if _, err := os.Stat(filepath.Join(fr.dir, base+suffix)); err == nil {
			fr.viol = append(fr.viol, Finding{Kind: "violation", Check: "tombstone-leaves-artifact", Detail: fmt.Sprintf("after TombstoneFile(%s.dat) the directory still holds %s%s", base, base, suffix), Replay: map[string]any{"ops": fr.ops.String()}})
		}
	}
}

func (fr *fsRun) open(base string) {
	fr.ops.add("open").s(base)
	fr.nops++
	f, err := fr.store.OpenFile(context.Background(), []byte(filepath.Join(fr.dir, base+".dat")))
	if err != nil {
		fr.results = append(fr.results, "err")
		return
	}
	data, _ := io.ReadAll(f)
	f.Close()
	fr.results = append(fr.results, "D "+hexb(data))
}

func (fr *fsRun) listing() string {
	ents, _ := os.ReadDir(fr.dir)
	var names []string
	for _, e := range ents {
		names = append(names, e.Name())
	}
	sort.Strings(names)
	var t toks
	t.n(len(names))
	for _, n := range names {
		data, _ := os.ReadFile(filepath.Join(fr.dir, n))
		t.s(n).add(hexb(data))
	}
	return t.String()
}

func (fr *fsRun) compare(c *ctx, check string) bool {
	for _, v := range fr.viol {
		c.r.Add(v)
	}
	resp := c.m.Ask(fmt.Sprintf("fsx %d %s", fr.nops, fr.ops.String()))
	got := strings.Join(fr.results, " ; ") + " | " + fr.listing()
	if resp != got {
		c.r.Add(Finding{Kind: "disagreement", Check: check, Detail: "call results / directory content differ from the Lean directory model", Replay: map[string]any{"ops": fr.ops.String(), "impl": got, "model": resp}})
		return false
	}
	return true
}

func runC16(c *ctx) {
	c.r.Rule = "random call sequences over 1-4 concurrent writers on a real temporary directory with the file-name draw scripted (collision rate about 40 %): CreateFile / Write / Close / Abort / TombstoneFile / OpenFile, " +
		"disciplined sequences and sequences that tombstone open writers or repeat Abort; every call result and the final raw directory content (names and bytes) must equal the Lean model; a scan with valid bloom payloads must list exactly the published pointers. " +
		"Non-trivial = at least one collision or an abort/tombstone; distinct by operation text"
	r := NewRng(c.seed, 1600)
	n := 800 * c.scale
	// names ending in the characters of ".dat" / ".tmp" catch suffix handling done by character set
	namePool := []string{"x", "y", "z", "bloom-1", "bloom-2", "data", "t", "a.d", "x.dat", "tmp.", "dat"}
	// directed: names and root directories that contain the store's own suffixes. A pointer is tombstoned while
	// its temp file exists (writer still open / finished) and after publication; nothing of it may remain and
	// nothing else may be touched - whatever ".dat" / ".tmp" occurrences the path holds besides the extension.
	for _, root := range []string{"", "bloom.data", "idx.dat.d", "a.tmp", ".dat"} {
		for _, base := range []string{"x", "x.dat", "a.dat.b", ".dat", "dat.dat", "x.tmp", "y.tmp.dat"} {
			for variant := 0; variant < 3; variant++ {
				fr := newFsRunIn(root)
				fr.create([]string{"keep"})
				fr.write(0, []byte{9})
				fr.close(0)
				fr.create([]string{base})
				fr.write(1, []byte{1, 2, 3})
				switch variant {
				case 1:
					fr.close(1)
				case 2:
					fr.abort(1)
				}
				fr.tombstone(base)
				fr.open("keep")
				fr.open(base)
				c.r.Case(true, fmt.Sprint("suffix-names ", root, " ", base, " ", variant))
				c.r.Hit("fs.suffix-shaped-paths")
				fr.compare(c, "fs-store-model")
				fr.cleanup()
			}
		}
	}
	// directed: the documented no-op. A writer's Close succeeded (the file is published); Abort on it - the usual
	// deferred cleanup - is documented to do nothing. Whatever happened to its name meanwhile (tombstoned, drawn
	// again by a new writer that is still writing or has finished), that Abort must not touch the new writer.
	for _, base := range []string{"x", "bloom-7", "x.dat"} {
		for variant := 0; variant < 3; variant++ {
			fr := newFsRun()
			fr.create([]string{base})
			fr.write(0, []byte{1, 2, 3})
			fr.close(0)
			fr.tombstone(base)
			fr.create([]string{base, "elsewhere"})
			fr.write(1, []byte{7, 7})
			if variant == 1 {
				fr.close(1)
			}
			fr.abort(0) // the old writer's deferred Abort
			if variant == 2 {
				fr.abort(0) // and once more
			}
			if variant != 1 {
				fr.write(1, []byte{8})
				fr.close(1)
			}
			closeRes := fr.results[len(fr.results)-1]
			if variant == 1 {
				closeRes = fr.results[len(fr.results)-2]
			}
			data, rerr := os.ReadFile(filepath.Join(fr.dir, base+".dat"))
			want := []byte{7, 7, 8}
			if variant == 1 {
				want = []byte{7, 7}
			}
			if closeRes != "ok" || rerr != nil || !bytes.Equal(data, want) {
				fr.viol = append(fr.viol, Finding{Kind: "violation", Check: "late-abort-damages-new-writer", Detail: fmt.Sprintf("writer A of %s.dat was closed successfully and its pointer tombstoned; a new writer B drew the same name; A.Abort() (documented as a no-op after a successful Close) ran; B's Close returned %s and %s.dat holds %v (read err %v), want ok and %v", base, closeRes, base, data, rerr, want), Replay: map[string]any{"ops": fr.ops.String()}})
			}
			fr.open(base)
			c.r.Case(true, fmt.Sprint("late-abort ", base, " ", variant))
			c.r.Hit("fs.late-abort-after-close")
			fr.compare(c, "fs-store-model")
			fr.cleanup()
		}
	}
	var freed []string // bases tombstoned after their writer finished: the next CreateFile may draw them again
	for i := 0; i < n; i++ {
		fr := newFsRun()
		nops := 4 + r.IntN(16)
		disciplined := r.Chance(0.7)
		open := map[int]string{} // writer -> base, while not closed
		closed := map[int]bool{} // Close/Abort was called
		collisions := 0
		freed = freed[:0]
		if r.Chance(0.2) {
			// name-reuse lifecycle: a finished pointer is tombstoned, its name is drawn again by a new
			// writer, and late calls on the OLD writer (deferred Abort, a second Close) arrive while the new
			// one is in flight. All of it is within the store's contract.
			base := pick(r, namePool)
			fr.create([]string{base})
			fr.write(0, []byte{1, 2, 3})
			if r.Chance(0.8) {
				fr.close(0)
			} else {
				fr.abort(0)
			}
			fr.tombstone(base)
			fr.create([]string{base, "fresh-r"})
			fr.write(1, []byte{7, 7})
			for _, late := range []int{r.Pick(4), r.Pick(4)} {
				switch late {
				case 0:
					fr.abort(0)
				case 1:
					fr.close(0)
				case 2:
					fr.write(1, []byte{8})
				}
			}
			want := "none"
			if r.Chance(0.85) {
				fr.close(1)
				want = "new"
			} else {
				fr.abort(1)
			}
			fr.open(base)
			_ = want
			c.r.Case(true, fr.ops.String())
			c.r.Hit("fs.name-reuse-lifecycle")
			fr.compare(c, "fs-store-model")
			fr.cleanup()
			continue
		}
		var deferred []int // closed writers whose (deferred) Abort has not run yet
		for k := 0; k < nops; k++ {
			if len(deferred) > 0 && r.Chance(0.2) {
				// the usual `defer w.Abort()` cleanup running some time after a successful Close
				j := r.IntN(len(deferred))
				fr.abort(deferred[j])
				deferred = append(deferred[:j], deferred[j+1:]...)
				continue
			}
			switch op := r.Pick(20); {
			case op < 6 && len(fr.writers) < 4:
				var draws []string
				nd := 1 + r.IntN(3)
				for d := 0; d < nd; d++ {
					if len(freed) > 0 && r.Chance(0.5) {
						draws = append(draws, pick(r, freed))
					} else {
						draws = append(draws, pick(r, namePool))
					}
				}
				fr.fresh++
				draws = append(draws, fmt.Sprintf("fresh%d", fr.fresh)) // always ends on a free name
				before := len(fr.writers)
				fr.create(draws)
				if len(fr.writers) > before {
					res := fr.results[len(fr.results)-1]
					base := unhx(strings.TrimPrefix(res, "C "))
					open[before] = base
					if base != draws[0] {
						collisions++
					}
				}
			case op < 11 && len(fr.writers) > 0:
				w := r.IntN(len(fr.writers))
				data := make([]byte, r.IntN(6))
				for j := range data {
					data[j] = byte(r.IntN(256))
				}
				fr.write(w, data)
			case op < 14 && len(fr.writers) > 0:
				w := r.IntN(len(fr.writers))
				fr.close(w)
				if !closed[w] {
					deferred = append(deferred, w)
				}
				closed[w] = true
				delete(open, w)
			case op < 16 && len(fr.writers) > 0:
				w := r.IntN(len(fr.writers))
				// Abort after Close is part of the contract (a deferred cleanup): a no-op once published
				fr.abort(w)
				closed[w] = true
				delete(open, w)
				collisions++
			case op < 18:
				base := pick(r, namePool)
				if disciplined {
					busy := false
					for _, b := range open {
						if b == base {
							busy = true
						}
					}
					if busy {
						continue
					}
				}
				fr.tombstone(base)
				freed = append(freed, base)
				collisions++
			default:
				fr.open(pick(r, namePool))
			}
		}
		c.r.Case(collisions > 0, fr.ops.String())
		c.r.Hit("fs.disciplined." + b2s(disciplined))
		if i < 2 {
			c.r.Sample(map[string]any{"ops": fr.ops.String(), "results": strings.Join(fr.results, " ; ")})
		}
		fr.compare(c, "fs-store-model")
		fr.cleanup()
	}
	// ---- valid bloom payloads: the directory scan lists exactly the published, untombstoned pointers
	{
		h := NewHistory(r)
		h.Run(r, 8, c.r)
		var payloads [][]byte
		for name, d := range h.Env.Data.Published() {
			if !strings.HasPrefix(name, "ext") {
				payloads = append(payloads, d)
			}
		}
		h.Env.Stop()
		// the smallest valid files the public writer helper produces: a footer only (no data block, the file
		// filter section starts at offset 0), with and without file-level filters
		for _, withFilters := range []bool{false, true} {
			var buf bytes.Buffer
			md := bs.FileMetadata{BloomFalsePositiveRate: 0.01}
			if withFilters {
				md.BloomFilters = bs.BloomFilters{FieldBloomFilter: bloom.NewWithEstimates(4, 0.01), TokenBloomFilter: bloom.NewWithEstimates(4, 0.01), FieldTokenBloomFilter: bloom.NewWithEstimates(4, 0.01)}
			}
			if err := bs.WriteFileFooter(&buf, &md); err == nil {
				if _, _, rerr := bs.ReadFileMetadata(bytes.NewReader(buf.Bytes())); rerr == nil {
					payloads = append(payloads, buf.Bytes(), buf.Bytes())
					c.r.Hit("fs.footer-only-payload")
				} else {
					c.r.Add(Finding{Kind: "violation", Check: "scan-exact", Detail: fmt.Sprintf("a footer-only file written by WriteFileFooter (no data blocks, file-level filters=%v) is rejected by ReadFileMetadata: %v - published through the store it would never be listed", withFilters, rerr), Replay: map[string]any{"file_hex": fmt.Sprintf("%x", buf.Bytes())}})
				}
			}
		}
		for i := 0; i < 40*c.scale && len(payloads) > 0; i++ {
			fr := newFsRun()
			want := map[string]bool{}
			for w := 0; w < 1+r.IntN(4); w++ {
				fr.fresh++
				base := fmt.Sprintf("p%d", fr.fresh)
				fr.create([]string{base})
				data := pick(r, payloads)
				half := len(data) / 2
				fr.write(w, data[:half])
				switch r.Pick(4) {
				case 0:
					fr.abort(w)
				case 1:
					// unfinished: reservation + temp file stay
				case 2:
					fr.write(w, data[half:])
					fr.close(w)
					fr.tombstone(base)
				default:
					fr.write(w, data[half:])
					fr.close(w)
					want[base] = true
				}
			}
			got := map[string]bool{}
			for f, err := range fr.store.GetMaybeFilesForQuery(context.Background(), nil) {
				if err != nil {
					continue
				}
				got[strings.TrimSuffix(filepath.Base(string(f.PointerBytes)), ".dat")] = true
			}
			c.r.Case(true, "scan "+fr.ops.String())
			if fmt.Sprint(got) != fmt.Sprint(want) {
				c.r.Add(Finding{Kind: "violation", Check: "scan-exact", Detail: fmt.Sprintf("directory scan lists %v, published and not tombstoned: %v", got, want), Replay: map[string]any{"ops": trunc(fr.ops.String(), 600)}})
			}
			fr.cleanup()
		}
	}
	// ---- deterministic reproducer of the recorded finding (tombstone while the writer is open)
	{
		fr := newFsRun()
		fr.create([]string{"x"})
		fr.write(0, []byte{1, 1})
		fr.tombstone("x")
		fr.create([]string{"x"})
		fr.write(1, []byte{9})
		fr.close(0)
		fr.open("x")
		fr.compare(c, "fs-store-model")
		if fr.results[5] == "ok" && fr.results[6] == "D 09" {
			c.r.Add(Finding{Kind: "violation", Check: "close-publishes-foreign-bytes", Key: "tombstone-while-open-then-redraw",
				Detail: "CreateFile(x); TombstoneFile(x) while the writer is open; CreateFile redraws x; the first writer's Close returns nil and publishes the second writer's partial bytes under x.dat",
				Replay: map[string]any{"ops": fr.ops.String(), "results": strings.Join(fr.results, " ; ")}})
		}
		fr.cleanup()
	}
}
