package main

// C15: crash consistency of FileSystemDataStore (used as DataStore and MetaStore). Every filesystem
// mutation boundary of random flush / failed-flush / merge histories is a crash point: the directory
// as a process crash leaves it is captured from the real directory; the power-loss variants are derived
// from the Lean crash model replayed on the observed mutation stream (and the model's current view is
// compared with the real directory at every boundary). Each crash state is materialised into a fresh
// directory and queried with a fresh engine. A second, hook-independent tie: a child process is run
// under strace and its real syscall sequence must have the shape of the model's protocol.

import (
	"bufio"
	"context"
	"crypto/sha256"
	"errors"
	"fmt"
	"io"
	"os"
	"os/exec"
	"path/filepath"
	"regexp"
	"sort"
	"strconv"
	"strings"
	"time"

	bs "github.com/danthegoodman1/bloomsearch"
)

func init() { props["C15"] = runC15 }

// failingFS delegates to a FileSystemDataStore but fails the failAt-th Write call (1-based; 0 = never)
// of the writer created while armed.
type failingFS struct {
	*bs.FileSystemDataStore
	failAt     int // which Write of the chosen writer fails (0 = never)
	failWriter int // which writer created since arming (1-based; 0 = every writer)
	created    int
}

func (f *failingFS) arm(writer, at int) { f.failWriter, f.failAt, f.created = writer, at, 0 }
func (f *failingFS) disarm()            { f.failWriter, f.failAt, f.created = 0, 0, 0 }

type failingWriter struct {
	io.WriteCloser
	fs  *failingFS
	n   int
	idx int
}

func (w *failingWriter) Write(p []byte) (int, error) {
	w.n++
	if w.fs.failAt > 0 && w.n == w.fs.failAt && (w.fs.failWriter == 0 || w.fs.failWriter == w.idx) {
		return 0, errInjected
	}
	return w.WriteCloser.Write(p)
}

func (w *failingWriter) Abort() error {
	if a, ok := w.WriteCloser.(interface{ Abort() error }); ok {
		return a.Abort()
	}
	return nil
}

func (f *failingFS) CreateFile(ctx context.Context) (io.WriteCloser, []byte, error) {
	w, p, err := f.FileSystemDataStore.CreateFile(ctx)
	if err != nil {
		return w, p, err
	}
	f.created++
	return &failingWriter{WriteCloser: w, fs: f, idx: f.created}, p, nil
}

type dirSnap map[string][]byte

func readDirSnap(dir string) dirSnap {
	ents, _ := os.ReadDir(dir)
	s := dirSnap{}
	for _, e := range ents {
		b, _ := os.ReadFile(filepath.Join(dir, e.Name()))
		if b == nil {
			b = []byte{}
		}
		s[e.Name()] = b
	}
	return s
}

// mergeWindow: the filesystem mutations [start, end) issued by one Merge call.
type mergeWindow struct {
	start, end int
	err        error
}

type fsEvent struct {
	op, path string
	snap     dirSnap // directory before the mutation
}

type crashRun struct {
	dir    string
	fs     *bs.FileSystemDataStore
	ffs    *failingFS
	eng    *bs.BloomSearchEngine
	cfg    bs.BloomSearchEngineConfig
	events []fsEvent
	nextID int
	sentAt map[int]int // id -> number of mutations performed when it was handed to IngestRows
	ackAt  map[int]int // id -> number of mutations performed when its nil ack was observed
	failed map[int]bool
	merged int // mutation index at which the first merge began (-1: none)
	merges []mergeWindow
	names  int
	desc   []string
	// cancelAt: the context of the merge in progress is cancelled right before the mutation with this index
	cancelAt int
	cancel   context.CancelFunc
}

func newCrashRun(cfg bs.BloomSearchEngineConfig, r Rng) *crashRun {
	dir, err := os.MkdirTemp("", "bscrash")
	if err != nil {
		fatal("tempdir: %v", err)
	}
	cr := &crashRun{dir: dir, cfg: cfg, sentAt: map[int]int{}, ackAt: map[int]int{}, failed: map[int]bool{}, merged: -1}
	cr.fs = bs.NewFileSystemDataStore(dir)
	// names in random order: a leftover reservation or temp file may sort before, between or after the
	// committed files of the directory scan
	order := r.Perm(400)
	bs.VerifSetDrawFileName(cr.fs, func() string { cr.names++; return fmt.Sprintf("n%03d", order[cr.names%400]) })
	cr.ffs = &failingFS{FileSystemDataStore: cr.fs}
	eng, err := bs.NewBloomSearchEngine(cfg, cr.fs, cr.ffs)
	if err != nil {
		fatal("engine: %v", err)
	}
	eng.Start()
	cr.eng = eng
	bs.VerifSetFSHook(func(op, path string) {
		if cr.cancel != nil && len(cr.events) == cr.cancelAt {
			cr.cancel()
		}
		cr.events = append(cr.events, fsEvent{op: op, path: filepath.Base(path), snap: readDirSnap(dir)})
	})
	return cr
}

func (cr *crashRun) finish() {
	ctx, cancel := context.WithTimeout(context.Background(), 20*time.Second)
	cr.eng.Stop(ctx)
	cancel()
	bs.VerifSetFSHook(nil)
	cr.events = append(cr.events, fsEvent{op: "end", snap: readDirSnap(cr.dir)})
	os.RemoveAll(cr.dir)
}

// flush ingests one batch and flushes it; failAt>0 makes that flush fail at its failAt-th Write.
func (cr *crashRun) flush(parts []string, failAt int) {
	var rows []map[string]any
	var ids []int
	for _, p := range parts {
		cr.nextID++
		ids = append(ids, cr.nextID)
		rows = append(rows, map[string]any{"_id": cr.nextID, "p": p, "pad": strings.Repeat("x", 8)})
		cr.sentAt[cr.nextID] = len(cr.events)
	}
	if failAt > 0 {
		cr.ffs.arm(1, failAt)
	}
	done := make(chan error, 1)
	if err := cr.eng.IngestRows(context.Background(), rows, done); err != nil {
		fatal("ingest: %v", err)
	}
	ferr := cr.eng.Flush(context.Background())
	var ack error
	select {
	case ack = <-done:
	case <-time.After(20 * time.Second):
		fatal("no ack (flush err %v)", ferr)
	}
	cr.ffs.disarm()
	for _, id := range ids {
		if ack == nil {
			cr.ackAt[id] = len(cr.events)
		} else {
			cr.failed[id] = true
		}
	}
	cr.desc = append(cr.desc, fmt.Sprintf("flush%v failAt=%d ack=%v", parts, failAt, ack))
}

func (cr *crashRun) merge(failWriter, failAt int) {
	if cr.merged < 0 {
		cr.merged = len(cr.events)
	}
	start := len(cr.events)
	if failAt > 0 {
		cr.ffs.arm(failWriter, failAt)
	}
	st, err := cr.eng.Merge(context.Background())
	cr.ffs.disarm()
	cr.merges = append(cr.merges, mergeWindow{start, len(cr.events), err})
	n := int64(0)
	if st != nil {
		n = st.FilesProcessed
	}
	cr.desc = append(cr.desc, fmt.Sprintf("merge files=%d failWriter=%d failAt=%d err=%v", n, failWriter, failAt, err))
}

// mergeCancelledAt runs a merge whose context is cancelled right before its k-th filesystem mutation (k >= 1;
// the merge may finish earlier, then nothing is cancelled). Returns whether the cancellation happened.
func (cr *crashRun) mergeCancelledAt(k int) bool {
	if cr.merged < 0 {
		cr.merged = len(cr.events)
	}
	start := len(cr.events)
	ctx, cancel := context.WithCancel(context.Background())
	cr.cancelAt, cr.cancel = start+k-1, cancel
	st, err := cr.eng.Merge(ctx)
	hit := ctx.Err() != nil
	cr.cancel = nil
	cancel()
	cr.merges = append(cr.merges, mergeWindow{start, len(cr.events), err})
	n := int64(0)
	if st != nil {
		n = st.FilesProcessed
	}
	cr.desc = append(cr.desc, fmt.Sprintf("merge files=%d context cancelled before its mutation #%d (reached=%v) err=%v", n, k, hit, err))
	return hit
}

// modelOps renders the observed mutation stream as crash-model operations.
func (cr *crashRun) modelOps() (string, int) {
	var t toks
	n := 0
	for k := 0; k+1 < len(cr.events); k++ {
		e := cr.events[k]
		next := cr.events[k+1].snap
		switch e.op {
		case "create_excl":
			t.add("createExcl").s(e.path)
		case "write":
			before := e.snap[e.path]
			after := next[e.path]
			var delta []byte
			if len(after) >= len(before) {
				delta = after[len(before):]
			}
			t.add("write").s(e.path).add(hexb(delta))
		case "fsync":
			t.add("fsync").s(e.path)
		case "rename":
			t.add("rename").s(e.path).s(strings.TrimSuffix(e.path, ".tmp") + ".dat")
		case "remove":
			t.add("remove").s(e.path)
		case "dirsync":
			t.add("dirsync")
		default:
			fatal("unknown fs op %q", e.op)
		}
		n++
	}
	return t.String(), n
}

type mEntry struct {
	name   string
	data   []byte
	synced int
}
type mState struct{ cur, dur []mEntry }

func parseCrashStates(resp string) ([]mState, error) {
	var out []mState
	for _, part := range strings.Split(resp, " ; ") {
		f := strings.Fields(part)
		pos := 0
		rd := func() ([]mEntry, error) {
			if pos >= len(f) {
				return nil, errors.New("short")
			}
			n, err := strconv.Atoi(f[pos])
			pos++
			if err != nil || pos+3*n > len(f) {
				return nil, errors.New("bad count")
			}
			var es []mEntry
			for i := 0; i < n; i++ {
				var data []byte
				if f[pos+1] != "-" {
					data = make([]byte, len(f[pos+1])/2)
					if _, err := fmt.Sscanf(f[pos+1], "%x", &data); err != nil {
						return nil, err
					}
				}
				s, _ := strconv.Atoi(f[pos+2])
				es = append(es, mEntry{unhx(f[pos]), data, s})
				pos += 3
			}
			return es, nil
		}
		cur, err := rd()
		if err != nil {
			return nil, fmt.Errorf("%v in %q", err, trunc(part, 80))
		}
		dur, err := rd()
		if err != nil {
			return nil, fmt.Errorf("%v in %q", err, trunc(part, 80))
		}
		out = append(out, mState{cur, dur})
	}
	return out, nil
}

// recovered directory states at one boundary: the process-crash state plus power-loss variants.
type recState struct {
	kind  string
	files dirSnap
}

func lookupE(es []mEntry, name string) *mEntry {
	for i := range es {
		if es[i].name == name {
			return &es[i]
		}
	}
	return nil
}

func powerLossStates(st mState) []recState {
	names := map[string]bool{}
	for _, e := range st.cur {
		names[e.name] = true
	}
	for _, e := range st.dur {
		names[e.name] = true
	}
	var differing, all []string
	for n := range names {
		all = append(all, n)
		c, d := lookupE(st.cur, n), lookupE(st.dur, n)
		// bindings are compared by the (data, synced) of the inode they reach: the model prints the
		// inode's current data under both views, so equal content+synced means the same inode here
		// or an indistinguishable one
		if (c == nil) != (d == nil) || (c != nil && (string(c.data) != string(d.data) || c.synced != d.synced)) {
			differing = append(differing, n)
		}
	}
	sort.Strings(all)
	sort.Strings(differing)
	var masks []uint
	if len(differing) <= 4 {
		for m := uint(0); m < 1<<uint(len(differing)); m++ {
			masks = append(masks, m)
		}
	} else {
		masks = append(masks, 0, 1<<uint(len(differing))-1)
		for i := range differing {
			masks = append(masks, 1<<uint(i), (1<<uint(len(differing))-1)&^(1<<uint(i)))
		}
	}
	var out []recState
	for _, m := range masks {
		for _, torn := range []bool{false, true} {
			files := dirSnap{}
			hasTorn := false
			for _, n := range all {
				useDur := false
				for i, d := range differing {
					if d == n && m&(1<<uint(i)) != 0 {
						useDur = true
					}
				}
				var e *mEntry
				if useDur {
					e = lookupE(st.dur, n)
				} else {
					e = lookupE(st.cur, n)
				}
				if e == nil {
					continue
				}
				data := e.data
				if torn && e.synced < len(data) {
					data = data[:e.synced]
					hasTorn = true
				}
				files[n] = data
			}
			if torn && !hasTorn {
				continue
			}
			out = append(out, recState{fmt.Sprintf("power-loss(dur-mask=%b,torn=%v)", m, torn), files})
		}
	}
	return out
}

func snapKey(s dirSnap) string {
	var ns []string
	for n := range s {
		if strings.HasSuffix(n, ".dat") {
			ns = append(ns, n)
		}
	}
	sort.Strings(ns)
	h := sha256.New()
	for _, n := range ns {
		fmt.Fprintf(h, "%s:%d:", n, len(s[n]))
		h.Write(s[n])
	}
	return string(h.Sum(nil))
}

// reopen materialises a crash state and queries it with a fresh engine.
func reopen(cfg bs.BloomSearchEngineConfig, files dirSnap) (map[int]int, error) {
	dir, err := os.MkdirTemp("", "bsrecov")
	if err != nil {
		fatal("tempdir: %v", err)
	}
	defer os.RemoveAll(dir)
	for n, b := range files {
		if err := os.WriteFile(filepath.Join(dir, n), b, 0o600); err != nil {
			fatal("materialise: %v", err)
		}
	}
	st := bs.NewFileSystemDataStore(dir)
	eng, err := bs.NewBloomSearchEngine(cfg, st, st)
	if err != nil {
		fatal("engine: %v", err)
	}
	out := RunQuery(eng, &bs.Query{})
	return idsOf(out.Rows), out.Err
}

func snapNames(s dirSnap) string {
	var ns []string
	for n, b := range s {
		ns = append(ns, fmt.Sprintf("%s(%d)", n, len(b)))
	}
	sort.Strings(ns)
	return strings.Join(ns, " ")
}

func (cr *crashRun) check(c *ctx) {
	ops, nops := cr.modelOps()
	resp := c.m.Ask(fmt.Sprintf("crashx %d %s", nops, ops))
	states, err := parseCrashStates(resp)
	if err != nil || len(states) != len(cr.events) {
		c.r.Add(Finding{Kind: "disagreement", Check: "crash-model-parse", Detail: fmt.Sprintf("model answer unusable: %v (%d states for %d boundaries)", err, len(states), len(cr.events)), Replay: map[string]any{"history": cr.desc, "ops": ops, "model": trunc(resp, 400)}})
		return
	}
	seen := map[string]bool{}
	for k, ev := range cr.events {
		// (1) model current view == real directory at this boundary
		ms := dirSnap{}
		for _, e := range states[k].cur {
			ms[e.name] = e.data
		}
		if snapNames(ms) != snapNames(ev.snap) || snapKey(ms) != snapKey(ev.snap) {
			c.r.Add(Finding{Kind: "disagreement", Check: "crash-model-current-view", Detail: fmt.Sprintf("boundary %d (before %s %s): directory %s, model %s", k, ev.op, ev.path, snapNames(ev.snap), snapNames(ms)), Replay: map[string]any{"history": cr.desc, "ops": ops}})
			return
		}
		// (2) crash states
		recs := append([]recState{{"process-crash", ev.snap}}, powerLossStates(states[k])...)
		for _, rs := range recs {
			key := snapKey(rs.files)
			mustHave := []int{}
			for id, at := range cr.ackAt {
				if at <= k {
					mustHave = append(mustHave, id)
				}
			}
			sort.Ints(mustHave)
			ck := key + fmt.Sprint(mustHave)
			if seen[ck] {
				continue
			}
			seen[ck] = true
			ids, qerr := reopen(cr.cfg, rs.files)
			c.r.Case(true, ck)
			c.r.Hit("crash." + strings.SplitN(rs.kind, "(", 2)[0])
			c.r.Hit("crash-before." + ev.op)
			// the recorded finding: the window between publishing a merge output and removing (durably) its sources
			inMergeWindow, afterGoodMerge := false, false
			for _, w := range cr.merges {
				if k > w.start && k < w.end {
					inMergeWindow = true
				}
				// (a failed multi-group merge publishes its first output durably and then removes it again without
				// a directory fsync: the same non-durable removal as the successful merge's source removals)
				if w.end > w.start && k >= w.end {
					afterGoodMerge = true
				}
			}
			afterMerge := inMergeWindow || (afterGoodMerge && strings.HasPrefix(rs.kind, "power-loss"))
			replay := map[string]any{"history": cr.desc, "boundary": k, "before_op": ev.op + " " + ev.path, "crash": rs.kind, "directory": snapNames(rs.files), "mutations": ops}
			if qerr != nil {
				c.r.Add(Finding{Kind: "violation", Check: "crash-state-query-error", Detail: fmt.Sprintf("a fresh engine over the crash state fails its query: %v", qerr), Replay: replay})
				continue
			}
			var missing, dup, ghost, unsent []int
			for _, id := range mustHave {
				if ids[id] == 0 {
					missing = append(missing, id)
				}
			}
			for id, n := range ids {
				if n > 1 {
					dup = append(dup, id)
				}
				if cr.failed[id] {
					ghost = append(ghost, id)
				}
				if at, ok := cr.sentAt[id]; !ok || at > k {
					unsent = append(unsent, id)
				}
			}
			sort.Ints(dup)
			sort.Ints(ghost)
			if len(missing) > 0 {
				key := ""
				if afterMerge && strings.HasPrefix(rs.kind, "power-loss") {
					key = "" // losing rows is never excused
				}
				c.r.Add(Finding{Kind: "violation", Check: "acknowledged-row-lost-by-crash", Key: key, Detail: fmt.Sprintf("rows %v were acknowledged before boundary %d and are not visible after %s", missing, k, rs.kind), Replay: replay})
			}
			if len(dup) > 0 {
				key := ""
				if afterMerge {
					key = "merge-source-removal-not-atomic"
				}
				c.r.Add(Finding{Kind: "violation", Check: "row-duplicated-by-crash", Key: key, Detail: fmt.Sprintf("rows %v are returned more than once after %s at boundary %d", dup, rs.kind, k), Replay: replay})
			}
			if len(ghost) > 0 {
				c.r.Add(Finding{Kind: "violation", Check: "failed-flush-row-visible-after-crash", Detail: fmt.Sprintf("rows %v belong to a flush that was answered with an error and are visible after %s at boundary %d", ghost, rs.kind, k), Replay: replay})
			}
			if len(unsent) > 0 {
				c.r.Add(Finding{Kind: "violation", Check: "row-from-nowhere", Detail: fmt.Sprintf("rows %v were not ingested before boundary %d", unsent, k), Replay: replay})
			}
		}
	}
}

func crashCfg(r Rng) bs.BloomSearchEngineConfig {
	cfg := bs.DefaultBloomSearchEngineConfig()
	cfg.PartitionFunc = partitionFunc("p")
	cfg.MaxBufferedTime = time.Hour
	cfg.RowDataCompression = pick(r, []bs.CompressionType{bs.CompressionNone, bs.CompressionSnappy})
	cfg.MaxRowGroupRows = pick(r, []int{2, 5, 10, 10, 100})
	cfg.MaxFilesToMergePerOperation = 6
	return cfg
}

func runC15(c *ctx) {
	c.r.Rule = "random histories of flushes, failed flushes (a Write fails at a random position, the engine aborts) and merges on FileSystemDataStore as DataStore+MetaStore in a real temporary directory; every filesystem mutation boundary is a crash point " +
		"(process crash = the real directory at that boundary; power loss = per-path current-or-durable binding and synced prefixes from the Lean crash model replayed on the observed mutation stream, whose current view must equal the real directory at every boundary); " +
		"each distinct crash state is reopened by a fresh engine and queried: acknowledged rows present, nothing twice, no row of a failed flush, query succeeds. A child process under strace must issue exactly the syscall shape of the model's flush/abort/merge protocols. " +
		"Non-trivial = every reopened crash state; distinct by (.dat content, acknowledged set)"
	r := NewRng(c.seed, 1500)
	// scripted: two merge groups (partitions a and b), the second output fails at its k-th write
	for k := 1; k <= 3; k++ {
		cfg := crashCfg(r)
		cfg.MaxRowGroupRows = 100
		cr := newCrashRun(cfg, r)
		cr.flush([]string{"a"}, 0)
		cr.flush([]string{"a", "a"}, 0)
		cr.flush([]string{"b"}, 0)
		cr.flush([]string{"b", "b"}, 0)
		cr.merge(2, k)
		cr.flush([]string{"a"}, 0)
		cr.finish()
		cr.check(c)
	}
	// scripted: the same two-group merge with its context cancelled before its k-th filesystem mutation, for every
	// k the merge reaches (a cancelled context is one more way a merge ends early; what it leaves behind is
	// what a crash afterwards finds)
	for k := 1; k <= 60; k++ {
		cfg := crashCfg(r)
		cfg.MaxRowGroupRows = 100
		cr := newCrashRun(cfg, r)
		cr.flush([]string{"a"}, 0)
		cr.flush([]string{"a", "a"}, 0)
		cr.flush([]string{"b"}, 0)
		cr.flush([]string{"b", "b"}, 0)
		hit := cr.mergeCancelledAt(k)
		cr.flush([]string{"a"}, 0)
		cr.finish()
		c.r.Hit("merge.cancelled-at-mutation." + b2s(hit))
		cr.check(c)
		if !hit {
			break
		}
	}
	// ... and the two combined: the context is already cancelled when the second group's output fails at its
	// j-th write, so the rollback of the first group's published output runs under a cancelled context
	for j := 1; j <= 3; j++ {
		for _, k := range []int{1, 4, 8, 12} {
			cfg := crashCfg(r)
			cfg.MaxRowGroupRows = 100
			cr := newCrashRun(cfg, r)
			cr.flush([]string{"a"}, 0)
			cr.flush([]string{"a", "a"}, 0)
			cr.flush([]string{"b"}, 0)
			cr.flush([]string{"b", "b"}, 0)
			cr.ffs.arm(2, j)
			hit := cr.mergeCancelledAt(k)
			cr.ffs.disarm()
			cr.flush([]string{"a"}, 0)
			cr.finish()
			c.r.Hit("merge.cancelled-and-failing." + b2s(hit))
			cr.check(c)
		}
	}
	n := 40 * c.scale
	for i := 0; i < n; i++ {
		cfg := crashCfg(r)
		cr := newCrashRun(cfg, r)
		steps := 4 + r.IntN(6)
		// with disjoint partition sets per file a merge forms several groups (one per partition)
		disjoint := r.Chance(0.7)
		good := [][]string{{"a"}, {"a", "b"}, {"a", "a"}, {"b"}, {"a", "a", "a", "a"}, {"b", "b", "b"}}
		if disjoint {
			good = [][]string{{"a"}, {"b"}, {"a", "a"}, {"b", "b"}, {"a", "a", "a", "a"}, {"b", "b", "b"}}
		}
		_ = steps
		doMerge := func() {
			if r.Chance(0.35) {
				cr.merge(1+r.IntN(2), 1+r.IntN(5)) // the first or the second output fails at some write
			} else {
				cr.merge(0, 0)
			}
		}
		for s := 0; s < 3+r.IntN(4); s++ {
			if r.Chance(0.2) {
				cr.flush(pick(r, [][]string{{"a"}, {"a", "b"}}), 1+r.IntN(6))
			} else {
				cr.flush(pick(r, good), 0)
			}
		}
		doMerge()
		for s := 0; s < r.IntN(3); s++ {
			cr.flush(pick(r, good), 0)
		}
		if r.Chance(0.5) {
			doMerge()
		}
		cr.finish()
		for _, w := range cr.merges {
			c.r.Hit(fmt.Sprintf("merge.mutations-%d.err-%v", min(w.end-w.start, 40)/10*10, w.err != nil))
		}
		c.r.Sample(map[string]any{"history": cr.desc, "boundaries": len(cr.events)})
		cr.check(c)
	}
	c15Strace(c)
}

// ---------------------------------------------------------------- syscall-level conformance

// c15Child runs a fixed scenario; its syscalls are traced by the parent.
func c15Child(dir string) {
	cfg := bs.DefaultBloomSearchEngineConfig()
	cfg.PartitionFunc = partitionFunc("p")
	cfg.MaxBufferedTime = time.Hour
	cfg.MaxFilesToMergePerOperation = 6
	fs := bs.NewFileSystemDataStore(dir)
	k := 0
	bs.VerifSetDrawFileName(fs, func() string { k++; return fmt.Sprintf("s%d", k) })
	ffs := &failingFS{FileSystemDataStore: fs}
	eng, err := bs.NewBloomSearchEngine(cfg, fs, ffs)
	if err != nil {
		fatal("engine: %v", err)
	}
	eng.Start()
	id := 0
	flush := func(failAt int) error {
		id++
		ffs.failAt = failAt
		done := make(chan error, 1)
		eng.IngestRows(context.Background(), []map[string]any{{"_id": id, "p": "a", "pad": "xxxxxxxx"}}, done)
		eng.Flush(context.Background())
		err := <-done
		ffs.failAt = 0
		return err
	}
	e1 := flush(0)
	e2 := flush(0)
	e3 := flush(2)
	_, e4 := eng.Merge(context.Background())
	ctx, cancel := context.WithTimeout(context.Background(), 10*time.Second)
	eng.Stop(ctx)
	cancel()
	fmt.Printf("child flush1=%v flush2=%v flush3=%v merge=%v\n", e1, e2, e3, e4)
}

var straceLine = regexp.MustCompile(`^(\d+)\s+(.*)$`)

func c15Strace(c *ctx) {
	if _, err := exec.LookPath("strace"); err != nil {
		c.r.Note("strace not available: syscall-level conformance skipped")
		c.r.Hit("strace.unavailable")
		return
	}
	dir, err := os.MkdirTemp("", "bsstrace")
	if err != nil {
		fatal("tempdir: %v", err)
	}
	defer os.RemoveAll(dir)
	data := filepath.Join(dir, "data")
	os.Mkdir(data, 0o700)
	trace := filepath.Join(dir, "trace")
	cmd := exec.Command("strace", "-f", "-qq", "-s", "0", "-o", trace, "-e", "trace=openat,write,fsync,fdatasync,sync_file_range,rename,renameat,renameat2,unlink,unlinkat,close", os.Args[0], "C15child", data)
	out, err := cmd.CombinedOutput()
	if err != nil || !strings.Contains(string(out), "flush1=<nil> flush2=<nil>") {
		c.r.Note("strace child did not run as expected (%v): %s", err, trunc(string(out), 200))
		c.r.Hit("strace.unusable")
		return
	}
	f, err := os.Open(trace)
	if err != nil {
		c.r.Note("no trace: %v", err)
		c.r.Hit("strace.unusable")
		return
	}
	defer f.Close()
	pending := map[string]string{} // pid -> unfinished prefix
	fds := map[string]string{}     // fd -> path (under data, or data itself)
	var ops []string
	base := func(p string) string { return filepath.Base(p) }
	under := func(p string) bool { return p == data || strings.HasPrefix(p, data+"/") }
	quoted := regexp.MustCompile(`"([^"]*)"`)
	sc := bufio.NewScanner(f)
	sc.Buffer(make([]byte, 1<<20), 1<<20)
	for sc.Scan() {
		m := straceLine.FindStringSubmatch(sc.Text())
		if m == nil {
			continue
		}
		pid, rest := m[1], m[2]
		if strings.HasSuffix(rest, "<unfinished ...>") {
			pending[pid] = strings.TrimSuffix(rest, "<unfinished ...>")
			continue
		}
		if strings.HasPrefix(rest, "<... ") {
			i := strings.Index(rest, "resumed>")
			if i < 0 {
				continue
			}
			rest = pending[pid] + rest[i+len("resumed>"):]
			delete(pending, pid)
		}
		eq := strings.LastIndex(rest, " = ")
		if eq < 0 {
			continue
		}
		call, ret := rest[:eq], strings.Fields(rest[eq+3:])[0]
		name := call[:strings.Index(call, "(")]
		args := call[strings.Index(call, "(")+1:]
		qs := quoted.FindAllStringSubmatch(args, -1)
		ok := !strings.HasPrefix(ret, "-")
		switch name {
		case "openat":
			if len(qs) == 0 || !under(qs[0][1]) {
				continue
			}
			if ok {
				fds[ret] = qs[0][1]
			}
			if strings.Contains(args, "O_EXCL") {
				ops = append(ops, "createExcl "+hx(base(qs[0][1])))
			} else if strings.Contains(args, "O_WRONLY") || strings.Contains(args, "O_RDWR") || strings.Contains(args, "O_TRUNC") {
				ops = append(ops, "openWrite "+hx(base(qs[0][1])))
			}
		case "close":
			fd := strings.TrimSuffix(strings.TrimSpace(args), ")")
			delete(fds, fd)
		case "write":
			fd := strings.SplitN(args, ",", 2)[0]
			if p, in := fds[fd]; in {
				ops = append(ops, "write "+hx(base(p)))
			}
		case "fsync":
			fd := strings.TrimSuffix(strings.TrimSpace(args), ")")
			if p, in := fds[fd]; in {
				if p == data {
					ops = append(ops, "dirsync")
				} else {
					ops = append(ops, "fsync "+hx(base(p)))
				}
			}
		case "fdatasync", "sync_file_range":
			fd := strings.TrimSuffix(strings.SplitN(args, ",", 2)[0], ")")
			if p, in := fds[fd]; in {
				ops = append(ops, name+" "+hx(base(p)))
			}
		case "rename", "renameat", "renameat2":
			if len(qs) >= 2 && under(qs[0][1]) && ok {
				ops = append(ops, "rename "+hx(base(qs[0][1]))+" "+hx(base(qs[1][1])))
			}
		case "unlink", "unlinkat":
			// os.Remove retries a failed unlink as rmdir: that second call is not a mutation attempt of its own
			if len(qs) >= 1 && under(qs[0][1]) && !strings.Contains(args, "AT_REMOVEDIR") {
				ops = append(ops, "remove "+hx(base(qs[0][1])))
			}
		}
	}
	observed := strings.Join(ops, " ; ")
	countWrites := func(b string) int {
		n := 0
		for _, o := range ops {
			if o == "write "+hx(b+".tmp") {
				n++
			}
		}
		return n
	}
	var srcs []string
	for _, o := range ops {
		for _, s := range []string{"s1", "s2"} {
			if o == "remove "+hx(s+".dat") && !(len(srcs) > 0 && (srcs[0] == s || srcs[len(srcs)-1] == s)) {
				srcs = append(srcs, s)
			}
		}
	}
	var t toks
	t.n(len(srcs))
	for _, s := range srcs {
		t.s(s)
	}
	expected := strings.Join([]string{
		c.m.Ask(fmt.Sprintf("flushshape %s %d", hx("s1"), countWrites("s1"))),
		c.m.Ask(fmt.Sprintf("flushshape %s %d", hx("s2"), countWrites("s2"))),
		c.m.Ask(fmt.Sprintf("abortshape %s %d", hx("s3"), countWrites("s3"))),
		c.m.Ask(fmt.Sprintf("mergeshape %s %d %s", hx("s4"), countWrites("s4"), t.String())),
	}, " ; ")
	c.r.Case(true, "strace:"+observed)
	c.r.Hit("strace.compared")
	c.r.Sample(map[string]any{"strace_ops": len(ops), "child": strings.TrimSpace(string(out))})
	if observed != expected {
		c.r.Add(Finding{Kind: "disagreement", Check: "syscall-shape", Detail: "the traced syscall sequence of flush, flush, failed flush, merge differs from the model's flushOps/abortedFlushOps/mergeCommitOps", Replay: map[string]any{"observed": decodeShape(observed), "expected": decodeShape(expected)}})
	}
}

func decodeShape(s string) []string {
	var out []string
	for _, o := range strings.Split(s, " ; ") {
		f := strings.Fields(o)
		for i := 1; i < len(f); i++ {
			f[i] = unhx(f[i])
		}
		out = append(out, strings.Join(f, " "))
	}
	return out
}
