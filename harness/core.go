package main

// Core plumbing shared by every property's harness: the Lean driver client, the report the
// orchestrator turns into evidence, token encoding for the line protocol, and the PRNG.

import (
	"bufio"
	"crypto/sha256"
	"encoding/hex"
	"encoding/json"
	"fmt"
	"io"
	"math/big"
	"math/rand/v2"
	"os"
	"os/exec"
	"sort"
	"strings"
	"sync"
	"time"
)

// ---------------------------------------------------------------- model client

type Model struct {
	cmd   *exec.Cmd
	in    io.WriteCloser
	out   *bufio.Reader
	mu    sync.Mutex
	lines int
}

func StartModel(path string) (*Model, error) {
	cmd := exec.Command(path)
	in, err := cmd.StdinPipe()
	if err != nil {
		return nil, err
	}
	out, err := cmd.StdoutPipe()
	if err != nil {
		return nil, err
	}
	cmd.Stderr = os.Stderr
	if err := cmd.Start(); err != nil {
		return nil, err
	}
	return &Model{cmd: cmd, in: in, out: bufio.NewReaderSize(out, 1<<20)}, nil
}

// Ask sends one request line and returns the one response line.
func (m *Model) Ask(line string) string {
	m.mu.Lock()
	defer m.mu.Unlock()
	m.lines++
	if _, err := io.WriteString(m.in, line+"\n"); err != nil {
		fatal("model write: %v", err)
	}
	resp, err := m.out.ReadString('\n')
	if err != nil {
		fatal("model read after %q: %v", trunc(line, 200), err)
	}
	return strings.TrimRight(resp, "\r\n")
}

func (m *Model) Close() {
	m.in.Close()
	m.cmd.Wait()
}

func fatal(format string, a ...any) {
	fmt.Fprintf(os.Stderr, "harness: "+format+"\n", a...)
	os.Exit(2)
}

func trunc(s string, n int) string {
	if len(s) <= n {
		return s
	}
	return s[:n] + "…"
}

// ---------------------------------------------------------------- report

// Finding is one concrete failing case.
type Finding struct {
	Kind   string `json:"kind"`          // "violation" (property fails on the implementation) | "disagreement" (model ≠ implementation)
	Check  string `json:"check"`         // which sub-check / correspondence
	Detail string `json:"detail"`        // human-readable description
	Key    string `json:"key,omitempty"` // classification key matched against known_findings.json
	Replay any    `json:"replay"`        // the concrete input / history
}

type Report struct {
	Property    string         `json:"property"`
	Seed        uint64         `json:"seed"`
	Tier        string         `json:"tier"`
	Evaluations int            `json:"evaluations"`
	Distinct    int            `json:"distinct_nontrivial"`
	Rule        string         `json:"rule"`
	Samples     []any          `json:"samples"`
	Histogram   map[string]int `json:"histogram"`
	Findings    []Finding      `json:"findings"`
	Known       []string       `json:"known_findings_reproduced"`
	ModelLines  int            `json:"model_lines"`
	Exhaustive  bool           `json:"exhaustive,omitempty"`
	Notes       []string       `json:"notes,omitempty"`
	WallS       float64        `json:"wall_s"`

	mu       sync.Mutex
	distinct map[[8]byte]struct{}
	start    time.Time
}

func NewReport(prop string, seed uint64, tier string) *Report {
	return &Report{Property: prop, Seed: seed, Tier: tier, Histogram: map[string]int{}, distinct: map[[8]byte]struct{}{}, start: time.Now()}
}

// Case counts one evaluated case; nontrivial cases are deduplicated by key.
func (r *Report) Case(nontrivial bool, key string) {
	r.mu.Lock()
	defer r.mu.Unlock()
	r.Evaluations++
	if nontrivial {
		h := sha256.Sum256([]byte(key))
		var k [8]byte
		copy(k[:], h[:8])
		r.distinct[k] = struct{}{}
	}
}

func (r *Report) Hit(name string) {
	r.mu.Lock()
	r.Histogram[name]++
	r.mu.Unlock()
}

func (r *Report) Sample(s any) {
	r.mu.Lock()
	if len(r.Samples) < 6 {
		r.Samples = append(r.Samples, s)
	}
	r.mu.Unlock()
}

// Add records a finding; at most 4 per (kind, check, key) are kept in full, the rest are counted.
func (r *Report) Add(f Finding) {
	r.mu.Lock()
	k := "finding." + f.Kind + "." + f.Check + "." + f.Key
	r.Histogram[k]++
	if r.Histogram[k] <= 4 {
		r.Findings = append(r.Findings, f)
	}
	r.mu.Unlock()
}

func (r *Report) Note(format string, a ...any) {
	r.mu.Lock()
	r.Notes = append(r.Notes, fmt.Sprintf(format, a...))
	r.mu.Unlock()
}

func (r *Report) Write(path string, m *Model) {
	r.Distinct = len(r.distinct)
	r.WallS = time.Since(r.start).Seconds()
	if m != nil {
		r.ModelLines = m.lines
	}
	if r.Samples == nil {
		r.Samples = []any{}
	}
	if r.Findings == nil {
		r.Findings = []Finding{}
	}
	if r.Known == nil {
		r.Known = []string{}
	}
	b, err := json.MarshalIndent(r, "", " ")
	if err != nil {
		fatal("report: %v", err)
	}
	if err := os.WriteFile(path, b, 0o644); err != nil {
		fatal("report: %v", err)
	}
}

// ---------------------------------------------------------------- protocol encoding

func hx(s string) string {
	if s == "" {
		return "-"
	}
	return hex.EncodeToString([]byte(s))
}

func unhx(s string) string {
	if s == "-" {
		return ""
	}
	b, err := hex.DecodeString(s)
	if err != nil {
		fatal("bad hex from model: %q", s)
	}
	return string(b)
}

func b2s(b bool) string {
	if b {
		return "1"
	}
	return "0"
}

type toks struct{ b strings.Builder }

func (t *toks) add(parts ...string) *toks {
	for _, p := range parts {
		if t.b.Len() > 0 {
			t.b.WriteByte(' ')
		}
		t.b.WriteString(p)
	}
	return t
}
func (t *toks) i(n int64) *toks      { return t.add(fmt.Sprint(n)) }
func (t *toks) n(n int) *toks        { return t.add(fmt.Sprint(n)) }
func (t *toks) s(s string) *toks     { return t.add(hx(s)) }
func (t *toks) big(b *big.Int) *toks { return t.add(b.String()) }
func (t *toks) String() string       { return t.b.String() }

// ---------------------------------------------------------------- PRNG

type Rng struct{ *rand.Rand }

func NewRng(seed uint64, stream uint64) Rng {
	return Rng{rand.New(rand.NewPCG(seed, 0x9e3779b97f4a7c15^stream))}
}

func (r Rng) Pick(n int) int        { return r.IntN(n) }
func (r Rng) Chance(p float64) bool { return r.Float64() < p }
func pick[T any](r Rng, xs []T) T   { return xs[r.IntN(len(xs))] }

func sortedStrings(m map[string]struct{}) []string {
	out := make([]string, 0, len(m))
	for k := range m {
		out = append(out, k)
	}
	sort.Strings(out)
	return out
}

func sortInts(a []int) { sort.Ints(a) }
