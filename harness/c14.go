package main

// C14: queries concurrent with flushes and merges. Scheduled interleavings (the query is parked at the
// snapshot, at its k-th OpenFile or at its k-th Read while flushes and merges run to completion) on
// MemoryMetaStore, replayed event by event on the Lean snapshot model; free-running stress with a
// result-level monitor; and for FileSystemDataStore used as MetaStore the two schedules of the Lean
// counterexamples (omission, duplication) driven on the real store.

import (
	"context"
	"fmt"
	"io"
	"iter"
	"os"
	"path/filepath"
	"regexp"
	"sort"
	"strconv"
	"strings"
	"sync"
	"sync/atomic"
	"time"

	bs "github.com/danthegoodman1/bloomsearch"
)

func init() { props["C14"] = runC14 }

var idRe = regexp.MustCompile(`"_id":(\d+)`)

func idsInBytes(b []byte) []int {
	var out []int
	for _, m := range idRe.FindAllSubmatch(b, -1) {
		n, _ := strconv.Atoi(string(m[1]))
		out = append(out, n)
	}
	return out
}

func snapCfg(r Rng) bs.BloomSearchEngineConfig {
	cfg := bs.DefaultBloomSearchEngineConfig()
	cfg.PartitionFunc = partitionFunc("p")
	cfg.MaxBufferedTime = time.Hour
	cfg.RowDataCompression = bs.CompressionNone
	cfg.MaxRowGroupRows = pick(r, []int{1, 2, 100})
	cfg.MaxFilesToMergePerOperation = pick(r, []int{2, 3, 6})
	cfg.MaxQueryConcurrency = 1
	return cfg
}

// parker parks the k-th matching call until released.
type parker struct {
	mu      sync.Mutex
	op      string
	k       int
	n       int
	armed   bool
	parked  chan struct{}
	release chan struct{}
}

func newParker(op string, k int) *parker {
	return &parker{op: op, k: k, armed: true, parked: make(chan struct{}), release: make(chan struct{})}
}

func (p *parker) hit(op string) {
	p.mu.Lock()
	if !p.armed || op != p.op {
		p.mu.Unlock()
		return
	}
	p.n++
	if p.n != p.k {
		p.mu.Unlock()
		return
	}
	p.armed = false
	p.mu.Unlock()
	close(p.parked)
	<-p.release
}

func (p *parker) disarm() {
	p.mu.Lock()
	p.armed = false
	p.mu.Unlock()
}

func fileNum(name string) int {
	n, _ := strconv.Atoi(strings.TrimLeft(strings.TrimPrefix(name, "f"), "0"))
	return n
}

type snapRun struct {
	env      *Env
	nextID   int
	sent     map[int]bool
	acked    map[int]bool
	contents map[string][]byte // every file ever published
	desc     []string
}

func (sr *snapRun) flush(r Rng) {
	var rows []map[string]any
	var ids []int
	for _, p := range pick(r, [][]string{{"a"}, {"a", "a"}, {"a", "b"}, {"b"}}) {
		sr.nextID++
		ids = append(ids, sr.nextID)
		sr.sent[sr.nextID] = true
		rows = append(rows, map[string]any{"_id": sr.nextID, "p": p, "pad": "xxxx"})
	}
	err := sr.env.IngestWait(rows)
	if err == nil {
		for _, id := range ids {
			sr.acked[id] = true
		}
	}
	sr.desc = append(sr.desc, fmt.Sprintf("flush%v->%v", ids, err))
}

func (sr *snapRun) merge() {
	st, err := sr.env.Eng.Merge(context.Background())
	n := int64(0)
	if st != nil {
		n = st.FilesProcessed
	}
	sr.desc = append(sr.desc, fmt.Sprintf("merge(files=%d,err=%v)", n, err))
}

func natList(xs []int) string {
	var t toks
	t.n(len(xs))
	for _, x := range xs {
		t.n(x)
	}
	return t.String()
}

func parseNatList(f []string, pos *int) []int {
	n, _ := strconv.Atoi(f[*pos])
	*pos++
	var out []int
	for i := 0; i < n; i++ {
		v, _ := strconv.Atoi(f[*pos])
		*pos++
		out = append(out, v)
	}
	return out
}

// resultMonitor is the property itself, checked on the implementation's answer.
func resultMonitor(c *ctx, what string, out QueryOut, ackedBefore map[int]bool, sent map[int]bool, key string, replay any) bool {
	if out.Err != nil {
		c.r.Hit("query.error")
		return true
	}
	c.r.Hit("query.nil-error")
	ids := idsOf(out.Rows)
	var missing, dup, ghost []int
	for id := range ackedBefore {
		if ids[id] == 0 {
			missing = append(missing, id)
		}
	}
	for id, n := range ids {
		if n > 1 {
			dup = append(dup, id)
		}
		if !sent[id] {
			ghost = append(ghost, id)
		}
	}
	sort.Ints(missing)
	sort.Ints(dup)
	ok := true
	if len(missing) > 0 {
		ok = false
		k := ""
		if key != "" {
			k = key + "-omission"
		}
		c.r.Add(Finding{Kind: "violation", Check: "snapshot-omits-acknowledged-rows", Key: k, Detail: fmt.Sprintf("%s: the query finished with a nil error but rows %v, acknowledged before it started, are missing", what, missing), Replay: replay})
	}
	if len(dup) > 0 {
		ok = false
		k := ""
		if key != "" {
			k = key + "-duplication"
		}
		c.r.Add(Finding{Kind: "violation", Check: "snapshot-duplicates-rows", Key: k, Detail: fmt.Sprintf("%s: the query finished with a nil error and returned rows %v more than once", what, dup), Replay: replay})
	}
	if len(ghost) > 0 {
		ok = false
		c.r.Add(Finding{Kind: "violation", Check: "snapshot-row-from-nowhere", Detail: fmt.Sprintf("%s: rows %v were never ingested", what, ghost), Replay: replay})
	}
	return ok
}

func c14Scheduled(c *ctx, r Rng) {
	cfg := snapCfg(r)
	env := NewEnv(cfg)
	env.Meta.(*FaultMeta).iterFaults = true
	env.Meta.(*FaultMeta).yieldGate = true
	lazyGC := r.Chance(0.3)
	env.Data.DeferTombstone = lazyGC
	sr := &snapRun{env: env, sent: map[int]bool{}, acked: map[int]bool{}, contents: map[string][]byte{}}
	defer env.Stop()
	capture := func() {
		for k, v := range env.Data.Published() {
			if _, ok := sr.contents[k]; !ok {
				sr.contents[k] = v
			}
		}
	}
	nfiles := 2 + r.IntN(3)
	env.Data.Mark("act-begin", "")
	for i := 0; i < nfiles; i++ {
		sr.flush(r)
	}
	if r.Chance(0.3) {
		capture()
		sr.merge()
	}
	capture()
	env.Data.Mark("act-end", "")
	parkOp := pick(r, []string{"iter", "yield", "yield", "open", "open", "read", "read"})
	parkK := 1 + r.IntN(5)
	pk := newParker(parkOp, parkK)
	env.Data.Gate = func(op, file string) {
		if op == "tombstone" {
			capture()
		}
		pk.hit(op)
	}
	ackedBefore := map[int]bool{}
	for id := range sr.acked {
		ackedBefore[id] = true
	}
	env.Data.Mark("qbegin", "")
	done := make(chan QueryOut, 1)
	q := &bs.Query{}
	qdesc := "match-all"
	if r.Chance(0.5) {
		// every row carries "pad":"xxxx": a bloom-conditioned query with the same answer, which goes
		// through the filter stage (block filter reads) as well
		q = bs.NewQuery().Token("xxxx").Build()
		qdesc = "token"
	}
	go func() { done <- env.Query(q) }()
	var out QueryOut
	finished := false
	select {
	case <-pk.parked:
	case out = <-done:
		finished = true
		pk.disarm()
	case <-time.After(20 * time.Second):
		fatal("C14: query neither parked nor finished")
	}
	env.Data.Mark("act-begin", "")
	nact := 1 + r.IntN(3)
	for i := 0; i < nact; i++ {
		if r.Chance(0.5) {
			sr.flush(r)
		} else {
			capture()
			sr.merge()
		}
		capture()
	}
	env.Data.Mark("act-end", "")
	if !finished {
		close(pk.release)
		select {
		case out = <-done:
		case <-time.After(20 * time.Second):
			fatal("C14: query did not finish after release")
		}
	}
	env.Data.Gate = nil
	capture()
	sched := fmt.Sprintf("park=%s#%d parked=%v query=%s lazyGC=%v", parkOp, parkK, !finished, qdesc, lazyGC)
	c.r.Hit("park." + parkOp + b2s(!finished))
	replay := map[string]any{"schedule": sched, "history": sr.desc, "config": fmt.Sprintf("rowgroup=%d mergeMax=%d", cfg.MaxRowGroupRows, cfg.MaxFilesToMergePerOperation)}
	resultMonitor(c, "MemoryMetaStore "+sched, out, ackedBefore, sr.sent, "", replay)

	if lazyGC {
		// the model's data store deletes at once; with deferred deletion only the property itself is checked
		c.r.Case(true, sched+fmt.Sprint(sr.desc))
		c.r.Hit("lazy-gc")
		return
	}
	// replay on the Lean model
	var t toks
	n := 0
	inAct := false
	seenQ := false
	_ = inAct
	mainGor := goid() // flushes are requested and merges run entirely on this goroutine; the query's calls are not
	for _, cl := range env.Data.Log() {
		switch cl.Op {
		case "act-begin":
			inAct = true
		case "act-end":
			inAct = false
		case "qbegin":
			t.add("qb")
			n++
			seenQ = true
		case "close":
			if data, ok := sr.contents[cl.File]; ok && !cl.Err {
				t.add("pub").n(fileNum(cl.File)).add(natList(idsInBytes(data)))
				n++
			}
		case "update":
			parts := strings.SplitN(cl.File, ";d=", 2)
			ws := strings.Split(strings.TrimPrefix(parts[0], "w="), ",")
			var outs, srcs []int
			for _, w := range ws {
				if w != "" {
					outs = append(outs, fileNum(w))
				}
			}
			for _, d := range strings.Split(parts[1], ",") {
				if d != "" {
					srcs = append(srcs, fileNum(d))
				}
			}
			if len(srcs) == 0 {
				for _, o := range outs {
					t.add("cf").n(o)
					n++
				}
			} else {
				t.add("cm").add(natList(outs)).add(natList(srcs))
				n++
			}
		case "tombstone":
			t.add("tomb").n(fileNum(cl.File))
			n++
		case "iter":
			if seenQ && cl.Gor != mainGor {
				t.add("qs")
				n++
			}
		case "open":
			if seenQ && cl.Gor != mainGor {
				t.add("qo").n(fileNum(cl.File))
				n++
			}
		}
	}
	resp := c.m.Ask(fmt.Sprintf("snapx mem %d %s", n, t.String()))
	replay["trace"] = t.String()
	c.r.Case(true, sched+"|"+t.String())
	f := strings.Fields(resp)
	if len(f) < 2 || f[0] != "ok" || f[1] != "err" {
		c.r.Add(Finding{Kind: "disagreement", Check: "snapshot-trace-rejected", Detail: "the Lean snapshot model does not accept the recorded event trace (an environment assumption of the theorem does not hold on the implementation): " + resp, Replay: replay})
		return
	}
	pos := 2
	merr := f[pos] == "1"
	pos += 2
	todo := parseNatList(f, &pos)
	pos++
	_ = parseNatList(f, &pos)
	pos++
	got := parseNatList(f, &pos)
	pos++
	start := parseNatList(f, &pos)
	sort.Ints(got)
	if merr != (out.Err != nil) {
		c.r.Add(Finding{Kind: "disagreement", Check: "snapshot-error-flag", Detail: fmt.Sprintf("model err=%v, implementation err=%v", merr, out.Err), Replay: replay})
		return
	}
	if merr {
		c.r.Hit("replayed.error")
		return
	}
	c.r.Hit("replayed.ok")
	if len(todo) != 0 || fmt.Sprint(got) != fmt.Sprint(sortedIDs(out.Rows)) {
		c.r.Add(Finding{Kind: "disagreement", Check: "snapshot-result", Detail: fmt.Sprintf("model got %v (todo %v), implementation returned %v", got, todo, sortedIDs(out.Rows)), Replay: replay})
	}
	for id := range ackedBefore {
		found := false
		for _, s := range start {
			if s == id {
				found = true
			}
		}
		if !found {
			c.r.Add(Finding{Kind: "disagreement", Check: "snapshot-acked-at-start", Detail: fmt.Sprintf("row %d was acknowledged before the query began but is not in the model's ackedAtStart %v", id, start), Replay: replay})
		}
	}
}

// c14Stress runs flusher, merger and queriers freely; result-level monitor only.
func c14Stress(c *ctx, r Rng, rounds int) {
	cfg := snapCfg(r)
	cfg.MaxQueryConcurrency = pick(r, []int{1, 4, 1000})
	env := NewEnv(cfg)
	defer env.Stop()
	var mu sync.Mutex
	sent := map[int]bool{}
	acked := map[int]bool{}
	nextID := 0
	stop := make(chan struct{})
	var wg sync.WaitGroup
	wg.Add(2)
	go func() { // flusher
		defer wg.Done()
		for {
			select {
			case <-stop:
				return
			default:
			}
			mu.Lock()
			nextID++
			id := nextID
			sent[id] = true
			mu.Unlock()
			if env.IngestWait([]map[string]any{{"_id": id, "p": "a", "pad": "xxxx"}}) == nil {
				mu.Lock()
				acked[id] = true
				mu.Unlock()
			}
			if id >= 300 {
				return
			}
			time.Sleep(300 * time.Microsecond)
		}
	}()
	go func() { // merger
		defer wg.Done()
		for {
			select {
			case <-stop:
				return
			default:
			}
			env.Eng.Merge(context.Background())
			time.Sleep(200 * time.Microsecond)
		}
	}()
	for i := 0; i < rounds; i++ {
		mu.Lock()
		before := map[int]bool{}
		for id := range acked {
			before[id] = true
		}
		mu.Unlock()
		out := env.Query(&bs.Query{})
		env.Data.ResetLog()
		mu.Lock()
		sentNow := map[int]bool{}
		for id := range sent {
			sentNow[id] = true
		}
		mu.Unlock()
		c.r.Case(true, fmt.Sprintf("stress%d-%d-%d", c.seed, i, len(before)))
		c.r.Hit("stress.query")
		resultMonitor(c, "MemoryMetaStore free-running", out, before, sentNow, "", map[string]any{"mode": "stress", "round": i, "acked_before": len(before)})
	}
	close(stop)
	wg.Wait()
}

// ---------------------------------------------------------------- FileSystemDataStore as MetaStore

// gatedFS wraps the filesystem store as MetaStore and DataStore with park points and an event log.
type gatedFS struct {
	*bs.FileSystemDataStore
	mu        sync.Mutex
	events    []string
	ids       map[string]int
	parkYield *parker // parks before handing the k-th scanned file to the engine
	parkUpd   *parker // parks before the k-th Update is applied
	listing   []string
}

func (g *gatedFS) id(path string) int {
	b := strings.TrimSuffix(filepath.Base(path), ".dat")
	if _, ok := g.ids[b]; !ok {
		g.ids[b] = len(g.ids) + 1
	}
	return g.ids[b]
}

func (g *gatedFS) ev(format string, a ...any) {
	g.mu.Lock()
	g.events = append(g.events, fmt.Sprintf(format, a...))
	g.mu.Unlock()
}

type gatedWriter struct {
	io.WriteCloser
	g    *gatedFS
	path string
}

func (w *gatedWriter) Close() error {
	err := w.WriteCloser.Close()
	if err == nil {
		data, _ := os.ReadFile(w.path)
		w.g.ev("pub %d %s", w.g.id(w.path), natList(idsInBytes(data)))
	}
	return err
}

func (w *gatedWriter) Abort() error { return w.WriteCloser.(interface{ Abort() error }).Abort() }

func (g *gatedFS) CreateFile(ctx context.Context) (io.WriteCloser, []byte, error) {
	w, p, err := g.FileSystemDataStore.CreateFile(ctx)
	if err != nil {
		return w, p, err
	}
	return &gatedWriter{WriteCloser: w, g: g, path: string(p)}, p, nil
}

func (g *gatedFS) TombstoneFile(ctx context.Context, p []byte) error {
	g.ev("tomb %d", g.id(string(p)))
	return g.FileSystemDataStore.TombstoneFile(ctx, p)
}

func (g *gatedFS) Update(ctx context.Context, w []bs.WriteOperation, d []bs.DeleteOperation) error {
	if g.parkUpd != nil && len(d) > 0 {
		g.parkUpd.hit("update")
	}
	if len(d) == 0 {
		for _, x := range w {
			g.ev("cf %d", g.id(string(x.FilePointerBytes)))
		}
	}
	for _, x := range d {
		g.ev("tomb %d", g.id(string(x.FilePointerBytes)))
	}
	return g.FileSystemDataStore.Update(ctx, w, d)
}

// queryScan wraps GetMaybeFilesForQuery for the monitored query only.
func (g *gatedFS) queryScan(ctx context.Context, q *bs.QueryPrefilter) iter.Seq2[bs.MaybeFile, error] {
	inner := g.FileSystemDataStore.GetMaybeFilesForQuery(ctx, q)
	return func(yield func(bs.MaybeFile, error) bool) {
		first := true
		for f, err := range inner {
			if first {
				first = false
			}
			if err == nil {
				g.ev("qo %d", g.id(string(f.PointerBytes)))
			}
			if g.parkYield != nil {
				g.parkYield.hit("yield")
			}
			if !yield(f, err) {
				return
			}
		}
	}
}

type fsQueryMeta struct{ g *gatedFS }

func (m fsQueryMeta) GetMaybeFilesForQuery(ctx context.Context, q *bs.QueryPrefilter) iter.Seq2[bs.MaybeFile, error] {
	return m.g.queryScan(ctx, q)
}
func (m fsQueryMeta) Update(ctx context.Context, w []bs.WriteOperation, d []bs.DeleteOperation) error {
	return m.g.Update(ctx, w, d)
}

// c14FS drives one of the directory-discipline schedules on the real store. mode: "omission",
// "duplication" or "flush-only".
func c14FS(c *ctx, r Rng, mode string) {
	dir, err := os.MkdirTemp("", "bssnap")
	if err != nil {
		fatal("tempdir: %v", err)
	}
	defer os.RemoveAll(dir)
	fs := bs.NewFileSystemDataStore(dir)
	names := []string{"a-keep", "m1", "m2", "z-out", "z-p", "z-q", "z-r", "z-s"}
	ni := 0
	bs.VerifSetDrawFileName(fs, func() string { ni++; return names[(ni-1)%len(names)] + strings.Repeat("x", (ni-1)/len(names)) })
	g := &gatedFS{FileSystemDataStore: fs, ids: map[string]int{}}
	cfg := snapCfg(r)
	cfg.MaxFilesToMergePerOperation = 6
	cfg.MaxRowGroupRows = 100
	// writer engine: plain scan for merges; query engine: gated scan
	ffs := &failingFS{FileSystemDataStore: fs}
	var wdata bs.DataStore = g
	if mode == "failed-merge" {
		wdata = &gatedFailing{gatedFS: g, f: ffs}
	}
	weng, err := bs.NewBloomSearchEngine(cfg, g, wdata)
	if err != nil {
		fatal("engine: %v", err)
	}
	weng.Start()
	qeng, err := bs.NewBloomSearchEngine(cfg, fsQueryMeta{g}, g)
	if err != nil {
		fatal("engine: %v", err)
	}
	defer func() {
		ctx, cancel := context.WithTimeout(context.Background(), 10*time.Second)
		weng.Stop(ctx)
		cancel()
	}()
	sent := map[int]bool{}
	acked := map[int]bool{}
	id := 0
	var desc []string
	flush := func(parts ...string) {
		var rows []map[string]any
		var ids []int
		for _, p := range parts {
			id++
			ids = append(ids, id)
			sent[id] = true
			rows = append(rows, map[string]any{"_id": id, "p": p, "pad": "xxxx"})
		}
		done := make(chan error, 1)
		weng.IngestRows(context.Background(), rows, done)
		weng.Flush(context.Background())
		if e := <-done; e == nil {
			for _, i := range ids {
				acked[i] = true
			}
		}
		desc = append(desc, fmt.Sprintf("flush%v", ids))
	}
	flush("b")      // a-keep: partition b, never merged
	flush("a")      // m1
	flush("a", "a") // m2
	before := map[int]bool{}
	for i := range acked {
		before[i] = true
	}
	var out QueryOut
	switch mode {
	case "omission":
		g.parkYield = newParker("yield", 1)
		g.ev("qb")
		g.ev("qs")
		done := make(chan QueryOut, 1)
		go func() { done <- RunQuery(qeng, &bs.Query{}) }()
		select {
		case <-g.parkYield.parked:
		case <-time.After(10 * time.Second):
			fatal("C14 fs: scan did not park")
		}
		_, merr := weng.Merge(context.Background())
		desc = append(desc, fmt.Sprintf("merge while the scan is parked after its first file (err=%v)", merr))
		close(g.parkYield.release)
		out = <-done
		// the listed files the scan reached after the merge and skipped
		g.ev("qo %d", g.id("m1"))
		g.ev("qo %d", g.id("m2"))
	case "duplication":
		g.parkUpd = newParker("update", 1)
		mdone := make(chan error, 1)
		go func() { _, e := weng.Merge(context.Background()); mdone <- e }()
		select {
		case <-g.parkUpd.parked:
		case <-time.After(10 * time.Second):
			fatal("C14 fs: merge did not reach Update")
		}
		g.ev("qb")
		g.ev("qs")
		out = RunQuery(qeng, &bs.Query{})
		desc = append(desc, "query while the merge is parked between publishing its output and Update")
		close(g.parkUpd.release)
		<-mdone
	case "failed-merge":
		// two merge groups (partitions a and b); the second group's output fails at a write: Merge returns an
		// error, and afterwards every row must still be returned exactly once (the first group's output, already
		// published when the failure hits, must not stay next to its sources)
		flush("b")
		flush("b", "b")
		for i := range acked {
			before[i] = true
		}
		ffs.arm(2, 1+r.IntN(4))
		_, merr := weng.Merge(context.Background())
		ffs.disarm()
		desc = append(desc, fmt.Sprintf("merge with the second output failing (err=%v)", merr))
		g.ev("qb")
		g.ev("qs")
		out = RunQuery(qeng, &bs.Query{})
	case "flush-only":
		g.parkYield = newParker("yield", 1+r.IntN(3))
		g.ev("qb")
		g.ev("qs")
		done := make(chan QueryOut, 1)
		go func() { done <- RunQuery(qeng, &bs.Query{}) }()
		select {
		case <-g.parkYield.parked:
			flush("a")
			flush("b")
			close(g.parkYield.release)
			out = <-done
		case out = <-done:
		}
	}
	replay := map[string]any{"store": "FileSystemDataStore as MetaStore", "mode": mode, "history": desc, "returned": sortedIDs(out.Rows), "err": fmt.Sprint(out.Err)}
	key := ""
	if mode == "omission" || mode == "duplication" {
		key = "fs-metastore-scan-not-atomic"
	}
	c.r.Case(true, "fs:"+mode+fmt.Sprint(desc))
	c.r.Hit("fs." + mode)
	held := resultMonitor(c, "FileSystemDataStore as MetaStore ("+mode+")", out, before, sent, key, replay)
	if (mode == "omission" || mode == "duplication") && held {
		c.r.Note("fs %s schedule did not reproduce the known finding this run (returned %v, err %v)", mode, sortedIDs(out.Rows), out.Err)
	}
	// replay on the Lean directory discipline
	g.mu.Lock()
	evs := append([]string(nil), g.events...)
	g.mu.Unlock()
	resp := c.m.Ask(fmt.Sprintf("snapx dir %d %s", len(evs), strings.Join(evs, " ")))
	replay["trace"] = strings.Join(evs, " ")
	f := strings.Fields(resp)
	if len(f) < 2 || f[0] != "ok" || f[1] != "err" {
		c.r.Add(Finding{Kind: "disagreement", Check: "dir-trace-rejected", Detail: "the Lean directory-discipline model does not accept the recorded trace: " + resp, Replay: replay})
		return
	}
	pos := 4
	_ = parseNatList(f, &pos)
	pos++
	_ = parseNatList(f, &pos)
	pos++
	got := parseNatList(f, &pos)
	sort.Ints(got)
	if out.Err == nil && fmt.Sprint(got) != fmt.Sprint(sortedIDs(out.Rows)) {
		c.r.Add(Finding{Kind: "disagreement", Check: "dir-result", Detail: fmt.Sprintf("directory model got %v, implementation returned %v", got, sortedIDs(out.Rows)), Replay: replay})
	}
}

// c14PrefilteredReaders: every flush writes one file with a block per partition; while a flusher and a merger
// run freely, readers alternate partition- and minmax-prefiltered queries with match-all queries. A prefiltered
// query must return every row of its partition / range acknowledged before it began, exactly once, and must
// leave the store as it found it: the match-all queries in between still see every acknowledged row.
func c14PrefilteredReaders(c *ctx, r Rng, rounds int) {
	cfg := snapCfg(r)
	cfg.PartitionFunc = partitionFunc("p")
	cfg.MinMaxIndexes = []string{"k"}
	cfg.MaxQueryConcurrency = pick(r, []int{1, 4, 1000})
	env := NewEnv(cfg)
	defer env.Stop()
	var mu sync.Mutex
	sent := map[int]bool{}
	acked := map[int]bool{}
	nextID := 0
	stop := make(chan struct{})
	var wg sync.WaitGroup
	parts := []string{"a", "b", "c"}
	wg.Add(2)
	go func() { // flusher: ids 3n+1, 3n+2, 3n+3 go to partitions a, b, c; k = id
		defer wg.Done()
		for {
			select {
			case <-stop:
				return
			default:
			}
			mu.Lock()
			var rows []map[string]any
			var ids []int
			for _, p := range parts {
				nextID++
				sent[nextID] = true
				ids = append(ids, nextID)
				rows = append(rows, map[string]any{"_id": nextID, "p": p, "k": nextID})
			}
			mu.Unlock()
			if env.IngestWait(rows) == nil {
				mu.Lock()
				for _, id := range ids {
					acked[id] = true
				}
				mu.Unlock()
			}
			if ids[0] >= 240 {
				return
			}
			time.Sleep(300 * time.Microsecond)
		}
	}()
	go func() { // merger
		defer wg.Done()
		for {
			select {
			case <-stop:
				return
			default:
			}
			env.Eng.Merge(context.Background())
			time.Sleep(400 * time.Microsecond)
		}
	}()
	for i := 0; i < rounds; i++ {
		mu.Lock()
		before := map[int]bool{}
		for id := range acked {
			before[id] = true
		}
		mu.Unlock()
		var q *bs.Query
		want := map[int]bool{}
		what := "match-all"
		switch i % 3 {
		case 0:
			pi := r.IntN(3)
			q = bs.NewQuery().MatchPrefilter(bs.Partition(bs.PartitionEquals(parts[pi]))).Build()
			what = "partition = " + parts[pi]
			for id := range before {
				if (id-1)%3 == pi {
					want[id] = true
				}
			}
		case 1:
			lo := int64(r.IntN(60))
			q = bs.NewQuery().MatchPrefilter(bs.MinMax("k", bs.NumericBetween(lo, lo+20))).Build()
			what = fmt.Sprintf("k between %d and %d", lo, lo+20)
			for id := range before {
				if int64(id) >= lo && int64(id) <= lo+20 {
					want[id] = true
				}
			}
		default:
			q = &bs.Query{}
			want = before
		}
		out := env.Query(q)
		env.Data.ResetLog()
		mu.Lock()
		sentNow := map[int]bool{}
		for id := range sent {
			sentNow[id] = true
		}
		mu.Unlock()
		c.r.Case(true, fmt.Sprintf("prefiltered-readers%d-%d-%d", c.seed, i, len(before)))
		c.r.Hit("stress.prefiltered-query")
		resultMonitor(c, "MemoryMetaStore, multi-partition files, free-running, query "+what, out, want, sentNow, "", map[string]any{"mode": "prefiltered-readers", "round": i, "query": what, "acked_before": len(before)})
	}
	close(stop)
	wg.Wait()
}

func runC14(c *ctx) {
	c.r.Rule = "MemoryMetaStore: scheduled interleavings - 2-4 flushed files (sometimes pre-merged), a match-all query parked at its snapshot, k-th OpenFile or k-th Read (k<=5) while 1-3 flushes/merges run to completion, then released; the result must satisfy the property " +
		"(nil error => every row acknowledged before the query began exactly once, nothing never ingested) and the recorded store-call trace (publish / commit / merge commit / tombstone / snapshot / open) must be accepted by the Lean snapshot model with the same error flag and the same rows; " +
		"plus free-running flusher + merger + queries with the result monitor. FileSystemDataStore as MetaStore: the two schedules of the Lean counterexamples (scan parked after its first file while a merge commits; query while a merge is parked between publish and Update) and flush-only schedules, " +
		"replayed on the Lean directory-discipline model. Non-trivial = every schedule; distinct by (park point, trace)"
	r := NewRng(c.seed, 1400)
	for i := 0; i < 150*c.scale; i++ {
		c14Scheduled(c, r)
	}
	for i := 0; i < 2*c.scale; i++ {
		c14Stress(c, r, 150)
	}
	for i := 0; i < 2*c.scale; i++ {
		c14PrefilteredReaders(c, r, 60)
	}
	c14FlushInFlight(c, r)
	c14FS(c, r, "omission")
	c14FS(c, r, "duplication")
	for i := 0; i < 3*c.scale; i++ {
		c14FS(c, r, "failed-merge")
	}
	for i := 0; i < 5*c.scale; i++ {
		c14FS(c, r, "flush-only")
	}
}

// gatedFailing is the writer engine's DataStore for the failed-merge schedule: gatedFS's event log plus
// failingFS's write faults.
type gatedFailing struct {
	*gatedFS
	f *failingFS
}

func (x *gatedFailing) CreateFile(ctx context.Context) (io.WriteCloser, []byte, error) {
	w, p, err := x.gatedFS.CreateFile(ctx)
	if err != nil {
		return w, p, err
	}
	x.f.created++
	return &failingWriter{WriteCloser: w, fs: x.f, idx: x.f.created}, p, nil
}

// parkCloseFS parks the writer's Close of the next file on demand (a flush caught between reserving its name
// and publishing its bytes).
type parkCloseFS struct {
	*bs.FileSystemDataStore
	armed   atomic.Bool
	parked  chan struct{}
	release chan struct{}
}

type parkCloseWriter struct {
	io.WriteCloser
	fs *parkCloseFS
}

func (w *parkCloseWriter) Close() error {
	if w.fs.armed.CompareAndSwap(true, false) {
		close(w.fs.parked)
		<-w.fs.release
	}
	return w.WriteCloser.Close()
}
func (w *parkCloseWriter) Abort() error { return w.WriteCloser.(interface{ Abort() error }).Abort() }

func (f *parkCloseFS) CreateFile(ctx context.Context) (io.WriteCloser, []byte, error) {
	w, p, err := f.FileSystemDataStore.CreateFile(ctx)
	if err != nil {
		return w, p, err
	}
	return &parkCloseWriter{WriteCloser: w, fs: f}, p, nil
}

// c14FlushInFlight: FileSystemDataStore as MetaStore, merge-free. Three flushes are committed; a fourth is caught
// between reserving its name (the empty .dat reservation and the temp file exist) and publishing. Its name sorts
// before, between or after the committed files. A query started now returns every acknowledged row exactly once.
func c14FlushInFlight(c *ctx, r Rng) {
	for _, inflight := range []string{"a0", "n5", "zz"} {
		dir, err := os.MkdirTemp("", "bsinflight")
		if err != nil {
			fatal("tempdir: %v", err)
		}
		fs := bs.NewFileSystemDataStore(dir)
		names := []string{"m1", "m2", "z9", inflight, "q1", "q2", "q3"}
		ni := 0
		bs.VerifSetDrawFileName(fs, func() string { ni++; return names[(ni-1)%len(names)] + strings.Repeat("x", (ni-1)/len(names)) })
		pfs := &parkCloseFS{FileSystemDataStore: fs, parked: make(chan struct{}), release: make(chan struct{})}
		cfg := snapCfg(r)
		weng, err := bs.NewBloomSearchEngine(cfg, fs, pfs)
		if err != nil {
			fatal("engine: %v", err)
		}
		weng.Start()
		qeng, err := bs.NewBloomSearchEngine(cfg, fs, fs)
		if err != nil {
			fatal("engine: %v", err)
		}
		before := map[int]bool{}
		sent := map[int]bool{}
		id := 0
		for f := 0; f < 3; f++ {
			var rows []map[string]any
			for k := 0; k < 2; k++ {
				id++
				sent[id] = true
				rows = append(rows, map[string]any{"_id": id, "p": "a"})
			}
			done := make(chan error, 1)
			weng.IngestRows(context.Background(), rows, done)
			weng.Flush(context.Background())
			if <-done == nil {
				before[id-1], before[id] = true, true
			}
		}
		pfs.armed.Store(true)
		id++
		sent[id] = true
		d4 := make(chan error, 1)
		weng.IngestRows(context.Background(), []map[string]any{{"_id": id, "p": "a"}}, d4)
		go weng.Flush(context.Background())
		parked := false
		select {
		case <-pfs.parked:
			parked = true
		case <-time.After(5 * time.Second):
		}
		out := RunQuery(qeng, &bs.Query{})
		ents, _ := os.ReadDir(dir)
		var listing []string
		for _, e := range ents {
			listing = append(listing, e.Name())
		}
		close(pfs.release)
		<-d4
		c.r.Case(parked, "flush-in-flight "+inflight)
		c.r.Hit("fs.flush-in-flight")
		resultMonitor(c, "FileSystemDataStore as MetaStore, a flush in flight (reservation "+inflight+".dat)", out, before, sent, "", map[string]any{"store": "FileSystemDataStore as MetaStore", "mode": "flush-in-flight", "directory_at_query": listing, "returned": sortedIDs(out.Rows), "err": fmt.Sprint(out.Err)})
		if out.Err != nil {
			c.r.Hit("fs.flush-in-flight.query-error") // an error is not an inconsistent snapshot: counted, not judged
		}
		ctx, cancel := context.WithTimeout(context.Background(), 10*time.Second)
		weng.Stop(ctx)
		cancel()
		os.RemoveAll(dir)
	}
}
