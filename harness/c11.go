package main

// C11 (merging preserves content and answers) and C12 (merge output respects layout limits):
// real merges over random populations, compared with the Lean merge-plan model, plus synthetic
// (metadata-only) populations for the file grouping.

import (
	"context"
	"fmt"
	"sort"
	"strings"
	"time"

	bs "github.com/danthegoodman1/bloomsearch"
)

func init() {
	props["C11"] = func(c *ctx) { runMerge(c, "C11") }
	props["C12"] = func(c *ctx) { runMerge(c, "C12") }
}

func cfgTok(t *toks, cfg bs.BloomSearchEngineConfig) {
	t.n(cfg.MaxRowGroupRows).n(cfg.MaxRowGroupBytes).n(cfg.MaxFileSize).n(cfg.MaxFilesToMergePerOperation)
}

type blockRef struct {
	file string
	off  int
}

func fileStats(m bs.FileMetadata) (total, avg int) {
	for i := range m.DataBlocks {
		total += m.DataBlocks[i].OnDiskSize()
	}
	return total, total / max(len(m.DataBlocks), 1)
}

// sortCandidates orders files like identifyFileMergeGroups; ok=false when two files tie (the Go
// sort is unstable, so the order is then not determined).
func sortCandidates(files []bs.MaybeFile) (sorted []bs.MaybeFile, ok bool) {
	sorted = append([]bs.MaybeFile(nil), files...)
	ok = true
	sort.SliceStable(sorted, func(i, j int) bool {
		ti, ai := fileStats(sorted[i].Metadata)
		tj, aj := fileStats(sorted[j].Metadata)
		if ai != aj {
			return ai < aj
		}
		return ti < tj
	})
	for i := 1; i < len(sorted); i++ {
		t0, a0 := fileStats(sorted[i-1].Metadata)
		t1, a1 := fileStats(sorted[i].Metadata)
		if t0 == t1 && a0 == a1 {
			ok = false
		}
	}
	return sorted, ok
}

func candTok(t *toks, id int, m bs.FileMetadata, keyNames map[string]string, blockID func(i int) int) {
	total, _ := fileStats(m)
	t.n(id).n(total).n(len(m.DataBlocks))
	for i := range m.DataBlocks {
		b := &m.DataBlocks[i]
		k := bs.VerifBlockMergeKey(b)
		if _, ok := keyNames[k]; !ok {
			keyNames[k] = fmt.Sprintf("k%d", len(keyNames))
		}
		t.n(blockID(i)).s(keyNames[k]).n(b.Rows).n(b.UncompressedSize)
	}
}

func parseGroups(s string) [][]int {
	f := strings.Fields(s)
	var out [][]int
	i := 1
	n := 0
	fmt.Sscan(f[0], &n)
	for g := 0; g < n; g++ {
		k := 0
		fmt.Sscan(f[i], &k)
		i++
		grp := make([]int, k)
		for j := 0; j < k; j++ {
			fmt.Sscan(f[i], &grp[j])
			i++
		}
		out = append(out, grp)
	}
	return out
}

func canonGroups(gs [][]int) string {
	var parts []string
	for _, g := range gs {
		h := append([]int(nil), g...)
		sort.Ints(h)
		parts = append(parts, fmt.Sprint(h))
	}
	sort.Strings(parts)
	return strings.Join(parts, ";")
}

func genMergeConfig(r Rng) (bs.BloomSearchEngineConfig, tokMode, string, []string) {
	cfg, tm, pm, keys := genHistConfig(r)
	cfg.MaxBufferedRows = 1 + r.IntN(4)
	cfg.MaxRowGroupRows = 2 + r.IntN(14)
	cfg.MaxRowGroupBytes = pick(r, []int{300, 800, 3000, 10 << 20})
	cfg.MaxFileSize = pick(r, []int{600, 2500, 20000, 10 << 30})
	cfg.MaxFilesToMergePerOperation = 2 + r.IntN(6)
	return cfg, tm, pm, keys
}

func runMerge(c *ctx, which string) {
	c.r.Rule = "real merges over random populations (many small files, partitions, differing minmax key sets, limits hit mid-group, external-writer files, repeated merges): " +
		"stored multiset, per-row partition/minmax coverage and 12 query answers compared before/after (C11); every output block/file checked against the limits and, when the candidate order is determined, " +
		"the observed block grouping compared with the Lean greedy model (C12); plus synthetic metadata-only populations for identifyFileMergeGroups vs the Lean fileGroups (exact). " +
		"Non-trivial = a merge that combined or moved at least one block; distinct by (history, merge index)"
	r := NewRng(c.seed, 110)
	hist := 14 * c.scale
	for hi := 0; hi < hist; hi++ {
		cfg, tm, pm, keys := genMergeConfig(r)
		h := &History{Env: NewEnv(cfg), TM: tm, PartMode: pm, Keys: keys, Rows: map[int]*StoredRow{}}
		h.PadBytes = pick(r, []int{0, 0, 200, 500})
		for step := 0; step < 3; step++ {
			// populate
			for i := 0; i < 4+r.IntN(8); i++ {
				if r.Chance(0.12) {
					h.externalFile(r, c.r)
					continue
				}
				var batch []map[string]any
				var srs []*StoredRow
				for j := 0; j < 1+r.IntN(3); j++ {
					if sr := h.genHistRow(r); sr != nil {
						batch = append(batch, sr.Go)
						srs = append(srs, sr)
					}
				}
				if err := h.Env.IngestWait(batch); err == nil {
					for _, sr := range srs {
						h.Rows[sr.ID] = sr
						h.Order = append(h.Order, sr.ID)
					}
				}
			}
			before, err := h.Layout()
			if err != nil {
				c.r.Add(Finding{Kind: "violation", Check: "layout-before", Detail: err.Error(), Replay: h.Ops})
				break
			}
			beforeFiles, _ := AllFiles(h.Env.Meta)
			// queries before
			var rowBytes [][]byte
			for _, f := range before {
				for _, b := range f.Blocks {
					rowBytes = append(rowBytes, b.Rows...)
				}
			}
			p := buildPools(rowBytes, h.TM)
			var queries []*bs.Query
			var answers []map[int]int
			if which == "C11" {
				for qi := 0; qi < 24; qi++ {
					q := genQuery(r, p, false)
					q.Prefilter = genPrefilterFor(r, h)
					if qi >= 12 && len(p.leaves) > 0 {
						// row-directed: one token (or field:token) of one stored leaf, no prefilter - the stored row must
						// stay findable through the rebuilt block and file filters
						lf := pick(r, p.leaves)
						tk := pick(r, lf.toks)
						if qi%2 == 0 {
							q = bs.NewQuery().Token(tk).Build()
						} else {
							q = bs.NewQuery().FieldToken(lf.path, tk).Build()
						}
					}
					out := h.Env.Query(q)
					queries = append(queries, q)
					answers = append(answers, idsOf(out.Rows))
				}
			}
			if which == "C12" && step == 2 && r.Chance(0.5) {
				// the merging engine may be configured with other minmax keys than the engines that wrote the
				// files: blocks are still grouped by the key sets they actually carry
				h.Env.Cfg.MinMaxIndexes = pick(r, [][]string{nil, {"k2"}, {"other"}})
				h.Env.Reopen()
				h.Ops = append(h.Ops, fmt.Sprintf("reopen MinMaxIndexes=%v", h.Env.Cfg.MinMaxIndexes))
			}
			stats, err := h.Env.Eng.Merge(context.Background())
			h.Ops = append(h.Ops, fmt.Sprintf("merge -> %v", err))
			if err != nil || stats == nil {
				c.r.Add(Finding{Kind: "disagreement", Check: "merge", Detail: fmt.Sprintf("healthy merge failed: %v", err), Replay: h.Ops})
				break
			}
			after, err := h.Layout()
			if err != nil {
				c.r.Add(Finding{Kind: "violation", Check: "layout-after", Detail: "merge output does not read back: " + err.Error(), Replay: h.Ops})
				break
			}
			c.r.Case(stats.FilesProcessed > 0, fmt.Sprint("merge", hi, step))
			c.r.Hit(fmt.Sprintf("merge.files.%d", min(int(stats.FilesProcessed), 6)))
			// row -> source block / dest block
			src := map[int]blockRef{}
			srcBlocks := map[blockRef]BlockObs{}
			beforeSet := map[string]bool{}
			for _, f := range before {
				beforeSet[f.Ptr] = true
				for _, b := range f.Blocks {
					ref := blockRef{f.Ptr, b.Meta.RowDataOffset}
					srcBlocks[ref] = b
					for _, id := range b.RowIDs {
						src[id] = ref
					}
				}
			}
			afterSet := map[string]bool{}
			storedAfter := map[int]int{}
			for _, f := range after {
				afterSet[f.Ptr] = true
				for _, b := range f.Blocks {
					for _, id := range b.RowIDs {
						storedAfter[id]++
					}
				}
			}
			if which == "C11" {
				for id := range src {
					if storedAfter[id] != 1 {
						c.r.Add(Finding{Kind: "violation", Check: "rows-preserved", Detail: fmt.Sprintf("row %d is stored %d times after the merge (once before)", id, storedAfter[id]), Replay: h.Ops})
					}
				}
				for id := range storedAfter {
					if _, ok := src[id]; !ok {
						c.r.Add(Finding{Kind: "violation", Check: "rows-preserved", Detail: fmt.Sprintf("row %d appeared after the merge", id), Replay: h.Ops})
					}
				}
				for _, f := range after {
					for _, b := range f.Blocks {
						for _, id := range b.RowIDs {
							sr := h.Rows[id]
							if sr == nil {
								continue
							}
							if b.Meta.PartitionID != sr.PID {
								c.r.Add(Finding{Kind: "violation", Check: "partition-after-merge", Detail: fmt.Sprintf("row %d (partition %q) sits in a block with PartitionID %q after the merge", id, sr.PID, b.Meta.PartitionID), Replay: h.Ops})
							}
							for k, nc := range sr.Vals {
								mm, ok := b.Meta.MinMaxIndexes[k]
								want := strings.Fields(c.m.Ask("range " + nc.Tok))
								var lo, hi2 int64
								fmt.Sscan(want[0], &lo)
								fmt.Sscan(want[1], &hi2)
								if !ok || mm.Min > lo || mm.Max < hi2 {
									c.r.Add(Finding{Kind: "violation", Check: "minmax-after-merge", Detail: fmt.Sprintf("row %d value %s under %q is not covered by its block's range %v (present=%v) after the merge", id, describeNum(nc), k, mm, ok), Replay: h.Ops})
								}
							}
						}
					}
				}
				for qi, q := range queries {
					out := h.Env.Query(q)
					got := idsOf(out.Rows)
					hasPre := q.Prefilter != nil && q.Prefilter.Expression != nil
					if out.Err != nil {
						c.r.Add(Finding{Kind: "violation", Check: "query-after-merge", Detail: "query after merge failed: " + out.Err.Error(), Replay: map[string]any{"ops": h.Ops, "query": q}})
					}
					for id, n := range answers[qi] {
						if got[id] < n {
							c.r.Add(Finding{Kind: "violation", Check: "answer-shrunk", Detail: fmt.Sprintf("row %d was in the pre-merge answer but not in the post-merge answer (prefilter=%v)", id, hasPre), Replay: map[string]any{"ops": h.Ops, "query": q}})
						}
					}
					for id, n := range got {
						if !hasPre && answers[qi][id] != n {
							c.r.Add(Finding{Kind: "violation", Check: "answer-changed", Detail: fmt.Sprintf("row %d: %d times before, %d times after, query without prefilter", id, answers[qi][id], n), Replay: map[string]any{"ops": h.Ops, "query": q}})
						}
						if hasPre && answers[qi][id] == 0 {
							// a new row in a prefiltered answer must still match bloom+regex: model verdict
							rb := rowOfLayout(after, id)
							var jt toks
							jsonTok(&jt, rb)
							if mv := askMatch(c, h.TM, q, rb, jt.String()); mv.valid && !mv.match {
								c.r.Add(Finding{Kind: "violation", Check: "answer-superset-nonmatching", Detail: fmt.Sprintf("row %d entered the post-merge answer but does not match the bloom/regex expression", id), Replay: map[string]any{"ops": h.Ops, "query": q}})
							}
						}
					}
				}
			}
			// ---- grouping legality and limits (both properties use legality; C12 reports limits)
			removed := 0
			for p := range beforeSet {
				if !afterSet[p] {
					removed++
				}
			}
			if which == "C12" && removed > cfg.MaxFilesToMergePerOperation {
				c.r.Add(Finding{Kind: "violation", Check: "files-per-merge", Detail: fmt.Sprintf("one Merge removed %d source files, MaxFilesToMergePerOperation=%d", removed, cfg.MaxFilesToMergePerOperation), Replay: h.Ops})
			}
			for _, f := range after {
				if beforeSet[f.Ptr] {
					continue
				}
				// new output file: its source files and observed block groups
				srcFiles := map[string]bool{}
				var observed [][]blockRef
				for _, b := range f.Blocks {
					set := map[blockRef]bool{}
					for _, id := range b.RowIDs {
						set[src[id]] = true
						srcFiles[src[id].file] = true
					}
					var g []blockRef
					for ref := range set {
						g = append(g, ref)
					}
					observed = append(observed, g)
					// one partition, one key set
					for _, ref := range g {
						sb := srcBlocks[ref]
						if sb.Meta.PartitionID != b.Meta.PartitionID || (len(g) > 1 && keySet(sb.Meta) != keySet(b.Meta)) {
							c.r.Add(Finding{Kind: "violation", Check: "group-key", Detail: fmt.Sprintf("output block (partition %q, keys %s) combines a source block with partition %q, keys %s", b.Meta.PartitionID, keySet(b.Meta), sb.Meta.PartitionID, keySet(sb.Meta)), Replay: h.Ops})
						}
					}
					if which == "C12" && len(g) > 1 {
						// judged by what the block really holds (its scanned rows), not only by what its metadata says
						realRows, realBytes := len(b.Rows), 0
						for _, rb := range b.Rows {
							realBytes += 4 + len(rb)
						}
						if max(b.Meta.Rows, realRows) > cfg.MaxRowGroupRows || max(b.Meta.UncompressedSize, realBytes) > cfg.MaxRowGroupBytes {
							c.r.Add(Finding{Kind: "violation", Check: "row-group-limits", Detail: fmt.Sprintf("combined block holds %d rows / %d bytes (metadata says %d / %d); limits %d / %d", realRows, realBytes, b.Meta.Rows, b.Meta.UncompressedSize, cfg.MaxRowGroupRows, cfg.MaxRowGroupBytes), Replay: h.Ops})
						}
						c.r.Hit("merge.combined-blocks")
					}
				}
				if which != "C12" {
					continue
				}
				total := 0
				var group []bs.MaybeFile
				for _, bf := range beforeFiles {
					if srcFiles[string(bf.PointerBytes)] {
						t, _ := fileStats(bf.Metadata)
						total += t
						group = append(group, bf)
					}
				}
				if total > cfg.MaxFileSize {
					c.r.Add(Finding{Kind: "violation", Check: "max-file-size", Detail: fmt.Sprintf("files merged into one output total %d bytes (metadata on-disk sizes), MaxFileSize=%d", total, cfg.MaxFileSize), Replay: h.Ops})
				}
				// exact block grouping when the candidate order is determined
				sorted, ok := sortCandidates(group)
				if !ok {
					c.r.Hit("merge.order-undetermined")
					continue
				}
				ids := map[blockRef]int{}
				t := (&toks{}).add("bgroups")
				cfgTok(t, cfg)
				var bt toks
				nb := 0
				keyNames := map[string]string{}
				for _, sf := range sorted {
					for i := range sf.Metadata.DataBlocks {
						b := &sf.Metadata.DataBlocks[i]
						ref := blockRef{string(sf.PointerBytes), b.RowDataOffset}
						ids[ref] = nb
						k := bs.VerifBlockMergeKey(b)
						if _, ok := keyNames[k]; !ok {
							keyNames[k] = fmt.Sprintf("k%d", len(keyNames))
						}
						bt.n(nb).s(keyNames[k]).n(b.Rows).n(b.UncompressedSize)
						nb++
					}
				}
				t.n(nb).add(bt.String())
				want := canonGroups(parseGroups(c.m.Ask(t.String())))
				var obs [][]int
				for _, g := range observed {
					var gi []int
					for _, ref := range g {
						gi = append(gi, ids[ref])
					}
					obs = append(obs, gi)
				}
				c.r.Hit("merge.block-grouping-compared")
				if got := canonGroups(obs); got != want {
					c.r.Add(Finding{Kind: "disagreement", Check: "block-grouping", Detail: "observed block groups of a merge output differ from the Lean greedy model", Replay: map[string]any{"ops": h.Ops, "impl": got, "model": want, "line": t.String()}})
				}
			}
		}
		h.Env.Stop()
	}
	if which == "C12" {
		syntheticFileGroups(c)
		byteLimitMerges(c)
		rowLimitShapeMerges(c)
		keySetReconfigMerges(c)
		mergeKeyCorrespondence(c)
		c12MultiBatchBlocks(c)
	}
	if which == "C11" {
		c17CopiedExternal(c) // stored content survives a merge that copies an external writer's block verbatim
		overlappingGroupMerges(c)
		rowLimitShapeMerges(c)
	}
}

func rowOfLayout(l []FileObs, id int) []byte {
	for _, f := range l {
		for _, b := range f.Blocks {
			for i, x := range b.RowIDs {
				if x == id {
					return b.Rows[i]
				}
			}
		}
	}
	return nil
}

func keySet(m bs.DataBlockMetadata) string {
	ks := make([]string, 0, len(m.MinMaxIndexes))
	for k := range m.MinMaxIndexes {
		ks = append(ks, k)
	}
	sort.Strings(ks)
	return fmt.Sprintf("%q", ks)
}

// syntheticFileGroups compares identifyFileMergeGroups with the Lean fileGroups on metadata-only
// populations whose sort keys are distinct (so the candidate order is determined).
func syntheticFileGroups(c *ctx) {
	r := NewRng(c.seed, 120)
	n := 1500 * c.scale
	for i := 0; i < n; i++ {
		cfg := bs.DefaultBloomSearchEngineConfig()
		cfg.MaxRowGroupRows = 1 + r.IntN(30)
		cfg.MaxRowGroupBytes = 50 + r.IntN(2000)
		cfg.MaxFileSize = 100 + r.IntN(6000)
		cfg.MaxFilesToMergePerOperation = 2 + r.IntN(7)
		eng, err := bs.NewBloomSearchEngine(cfg, bs.NewMemoryMetaStore(), NewMemStore())
		if err != nil {
			fatal("engine: %v", err)
		}
		nf := r.IntN(9)
		var files []bs.MaybeFile
		for f := 0; f < nf; f++ {
			var m bs.FileMetadata
			nb := 1 + r.IntN(4)
			for b := 0; b < nb; b++ {
				blk := bs.DataBlockMetadata{PartitionID: pick(r, []string{"", "a", "b"}), Rows: 1 + r.IntN(20), RowDataSize: 10 + r.IntN(900), BloomFilterSize: r.IntN(200), RowDataOffset: b}
				blk.UncompressedSize = blk.RowDataSize + r.IntN(400)
				if r.Chance(0.5) {
					blk.MinMaxIndexes = map[string]bs.MinMaxIndex{}
					for _, k := range pick(r, [][]string{{"k1"}, {"k1", "k2"}, {"k2"}}) {
						blk.MinMaxIndexes[k] = bs.MinMaxIndex{Min: 0, Max: 1}
					}
				}
				m.DataBlocks = append(m.DataBlocks, blk)
			}
			files = append(files, bs.MaybeFile{PointerBytes: []byte(fmt.Sprintf("s%02d", f)), Metadata: m})
		}
		sorted, ok := sortCandidates(files)
		if !ok {
			c.r.Hit("synthetic.tie-skipped")
			continue
		}
		t := (&toks{}).add("fgroups")
		cfgTok(t, cfg)
		t.n(len(sorted))
		idOf := map[string]int{}
		keyNames := map[string]string{}
		nb := 0
		for fi, f := range sorted {
			idOf[string(f.PointerBytes)] = fi
			candTok(t, fi, f.Metadata, keyNames, func(int) int { nb++; return nb })
		}
		want := canonGroups(parseGroups(c.m.Ask(t.String())))
		var obs [][]int
		total := 0
		for _, g := range eng.VerifFileMergeGroups(files) {
			var gi []int
			size := 0
			for _, p := range g {
				gi = append(gi, idOf[string(p)])
				for _, f := range files {
					if string(f.PointerBytes) == string(p) {
						s, _ := fileStats(f.Metadata)
						size += s
					}
				}
			}
			total += len(g)
			if size > cfg.MaxFileSize || len(g) < 2 {
				c.r.Add(Finding{Kind: "violation", Check: "file-group-limits", Detail: fmt.Sprintf("file group of %d files totals %d bytes; MaxFileSize=%d", len(g), size, cfg.MaxFileSize), Replay: map[string]any{"line": t.String()}})
			}
			obs = append(obs, gi)
		}
		if total > cfg.MaxFilesToMergePerOperation {
			c.r.Add(Finding{Kind: "violation", Check: "files-per-merge", Detail: fmt.Sprintf("%d files grouped in one merge; MaxFilesToMergePerOperation=%d", total, cfg.MaxFilesToMergePerOperation), Replay: map[string]any{"line": t.String()}})
		}
		got := canonGroups(obs)
		c.r.Case(len(obs) > 0, t.String())
		c.r.Hit(fmt.Sprintf("synthetic.groups.%d", min(len(obs), 3)))
		if i < 2 {
			c.r.Sample(map[string]any{"check": "file-groups", "line": trunc(t.String(), 300), "impl": got, "model": want})
		}
		if got != want {
			c.r.Add(Finding{Kind: "disagreement", Check: "file-grouping", Detail: "identifyFileMergeGroups differs from the Lean fileGroups", Replay: map[string]any{"line": t.String(), "impl": got, "model": want}})
		}
	}
}

// byteLimitMerges: populations built so that the BYTE limits bind before the row limit: k one-row blocks of
// one partition with a compressible filler (compressed size << uncompressed size), MaxRowGroupBytes /
// MaxFileSize set to a fractional multiple of one block / file. Every merged block and file must respect the
// limits in uncompressed / on-disk terms, and the rows must survive.
func byteLimitMerges(c *ctx) {
	r := NewRng(c.seed, 112)
	for i := 0; i < 30*c.scale; i++ {
		cfg := bs.DefaultBloomSearchEngineConfig()
		cfg.PartitionFunc = partitionFunc("p")
		cfg.MaxBufferedTime = time.Hour
		cfg.RowDataCompression = pick(r, []bs.CompressionType{bs.CompressionSnappy, bs.CompressionZstd, bs.CompressionNone, bs.CompressionSnappy})
		cfg.MaxRowGroupRows = 1000
		cfg.MaxFilesToMergePerOperation = 8
		env := NewEnv(cfg)
		h := &History{Env: env, Rows: map[int]*StoredRow{}}
		k := 3 + r.IntN(4)
		pad := 100 + r.IntN(600)
		for j := 0; j < k; j++ {
			env.IngestWait([]map[string]any{{"_id": j + 1, "p": "a", "zpad": strings.Repeat("q", pad+r.IntN(20))}})
		}
		before, err := h.Layout()
		if err != nil || len(before) != k {
			fatal("byteLimitMerges: layout %v (%d files)", err, len(before))
		}
		u := before[0].Blocks[0].Meta.UncompressedSize
		fsz, _ := fileStats(before[0].Meta)
		factor := pick(r, []float64{1.5, 2.5, 3.5})
		mode := pick(r, []string{"row-group-bytes", "row-group-bytes", "file-size"})
		env.Cfg.MaxRowGroupBytes = 10 << 20
		if mode == "row-group-bytes" {
			env.Cfg.MaxRowGroupBytes = int(float64(u+24) * factor)
		} else {
			env.Cfg.MaxFileSize = int(float64(fsz) * factor)
		}
		env.Reopen()
		_, merr := env.Eng.Merge(context.Background())
		after, lerr := h.Layout()
		replay := map[string]any{"files": k, "pad": pad, "compression": string(cfg.RowDataCompression), "mode": mode, "block_uncompressed": u, "file_size": fsz,
			"MaxRowGroupBytes": env.Cfg.MaxRowGroupBytes, "MaxFileSize": env.Cfg.MaxFileSize}
		c.r.Case(true, fmt.Sprint("bytelimit", i, k, pad, mode, factor))
		c.r.Hit("bytelimit." + mode)
		if merr != nil || lerr != nil {
			c.r.Add(Finding{Kind: "violation", Check: "byte-limit-merge-failed", Detail: fmt.Sprintf("merge %v / layout %v", merr, lerr), Replay: replay})
			env.Stop()
			continue
		}
		ids := map[int]int{}
		for _, f := range after {
			total, _ := fileStats(f.Meta)
			if mode == "file-size" && len(f.Blocks) > 0 && total > env.Cfg.MaxFileSize && total > fsz+64 {
				c.r.Add(Finding{Kind: "violation", Check: "max-file-size", Detail: fmt.Sprintf("merge output holds %d bytes of blocks; MaxFileSize %d (one source file: %d)", total, env.Cfg.MaxFileSize, fsz), Replay: replay})
			}
			for _, b := range f.Blocks {
				if b.Meta.Rows > 1 && b.Meta.UncompressedSize > env.Cfg.MaxRowGroupBytes {
					c.r.Add(Finding{Kind: "violation", Check: "row-group-limits", Detail: fmt.Sprintf("combined block has %d rows / %d uncompressed bytes; MaxRowGroupBytes %d (%s, one source block: %d bytes uncompressed, %d on disk)",
						b.Meta.Rows, b.Meta.UncompressedSize, env.Cfg.MaxRowGroupBytes, cfg.RowDataCompression, u, before[0].Blocks[0].Meta.RowDataSize), Replay: replay})
				}
				for _, id := range b.RowIDs {
					ids[id]++
				}
			}
		}
		for j := 1; j <= k; j++ {
			if ids[j] != 1 {
				c.r.Add(Finding{Kind: "violation", Check: "rows-preserved", Detail: fmt.Sprintf("row %d stored %d times after the merge", j, ids[j]), Replay: replay})
			}
		}
		env.Stop()
	}
}

// rowLimitShapeMerges: k flushed files, each with one block of partition "a" of a random size and (in some files)
// a one-row block of partition "b"; the merge runs with a MaxRowGroupRows that lets some pairs of the "a" blocks
// combine and others not, so the greedy grouping skips blocks for the limit and absorbs later ones. Whatever it
// builds, every stored row must be stored - and returned by a query - exactly once afterwards.
func rowLimitShapeMerges(c *ctx) {
	r := NewRng(c.seed, 117)
	for i := 0; i < 30*c.scale; i++ {
		cfg := bs.DefaultBloomSearchEngineConfig()
		cfg.PartitionFunc = partitionFunc("p")
		cfg.MaxBufferedTime = time.Hour
		cfg.RowDataCompression = pick(r, []bs.CompressionType{bs.CompressionNone, bs.CompressionSnappy, bs.CompressionZstd})
		cfg.MaxRowGroupRows = 1000
		cfg.MaxFilesToMergePerOperation = 8
		env := NewEnv(cfg)
		h := &History{Env: env, Rows: map[int]*StoredRow{}}
		limit := 4 + r.IntN(8)
		k := 3 + r.IntN(3)
		var sizes []int
		id := 0
		for j := 0; j < k; j++ {
			sz := 1 + r.IntN(limit-1)
			sizes = append(sizes, sz)
			// rows of very different byte sizes from file to file: the order in which the merge visits blocks
			// (by size in bytes) is then independent of their row counts
			pad := strings.Repeat("a", pick(r, []int{0, 8, 200, 1024, 8192}))
			var batch []map[string]any
			for n := 0; n < sz; n++ {
				id++
				batch = append(batch, map[string]any{"_id": id, "p": "a", "w": fmt.Sprint("w", id), "pad": pad})
			}
			if r.Chance(0.6) {
				id++
				batch = append(batch, map[string]any{"_id": id, "p": "b", "w": fmt.Sprint("w", id)})
			}
			env.IngestWait(batch)
		}
		env.Cfg.MaxRowGroupRows = limit
		env.Reopen()
		_, merr := env.Eng.Merge(context.Background())
		after, lerr := h.Layout()
		replay := map[string]any{"block_rows_of_partition_a": sizes, "MaxRowGroupRows_at_merge": limit, "compression": string(cfg.RowDataCompression), "rows": id}
		c.r.Case(true, fmt.Sprint("rowlimit-shapes", sizes, limit))
		c.r.Hit("merge.rowlimit-shapes")
		if merr != nil || lerr != nil {
			c.r.Add(Finding{Kind: "violation", Check: "row-limit-merge-failed", Detail: fmt.Sprintf("merge %v / layout %v", merr, lerr), Replay: replay})
			env.Stop()
			continue
		}
		stored := map[int]int{}
		for _, f := range after {
			for _, b := range f.Blocks {
				if b.Meta.Rows > limit {
					// every source block has fewer rows than the limit, so a larger block was combined beyond it
					c.r.Add(Finding{Kind: "violation", Check: "row-group-limits", Detail: fmt.Sprintf("combined block has %d rows; MaxRowGroupRows %d (source blocks of partition a: %v rows)", b.Meta.Rows, limit, sizes), Replay: replay})
				}
				for _, rid := range b.RowIDs {
					stored[rid]++
				}
			}
		}
		out := env.Query(&bs.Query{})
		returned := map[int]int{}
		for _, row := range out.Rows {
			if v, ok := row["_id"].(float64); ok {
				returned[int(v)]++
			}
		}
		for j := 1; j <= id; j++ {
			if stored[j] != 1 {
				c.r.Add(Finding{Kind: "violation", Check: "rows-preserved", Detail: fmt.Sprintf("row %d is stored %d times after the merge (blocks of %v rows in one partition, MaxRowGroupRows %d)", j, stored[j], sizes, limit), Replay: replay})
				break
			}
		}
		for j := 1; j <= id && out.Err == nil; j++ {
			if returned[j] != 1 {
				c.r.Add(Finding{Kind: "violation", Check: "e2e-multiplicity", Detail: fmt.Sprintf("after the merge a match-all query returned row %d %d times (stored once before the merge; blocks of %v rows in one partition, MaxRowGroupRows %d)", j, returned[j], sizes, limit), Replay: replay})
				break
			}
		}
		if out.Err != nil {
			c.r.Add(Finding{Kind: "violation", Check: "e2e-query-failed", Detail: "match-all query after a healthy merge failed: " + out.Err.Error(), Replay: replay})
		}
		env.Stop()
	}
}

// keySetReconfigMerges: files written by an engine that indexes "ts" hold, in one partition, a block with a ts
// range and a block without one (its rows had no ts); another partition gives the two files a mergeable pair,
// so they are grouped. The merge is run by an engine re-opened with other MinMaxIndexes (none / another key):
// blocks are merged only with blocks carrying the same minmax key set, whatever the merging engine indexes.
func keySetReconfigMerges(c *ctx) {
	r := NewRng(c.seed, 113)
	for i := 0; i < 8*c.scale; i++ {
		cfg := bs.DefaultBloomSearchEngineConfig()
		cfg.PartitionFunc = partitionFunc("p")
		cfg.MaxBufferedTime = time.Hour
		cfg.MinMaxIndexes = []string{"ts"}
		cfg.RowDataCompression = pick(r, []bs.CompressionType{bs.CompressionNone, bs.CompressionSnappy})
		cfg.MaxFilesToMergePerOperation = 8
		env := NewEnv(cfg)
		h := &History{Env: env, Rows: map[int]*StoredRow{}}
		// file A: pp{ts}, qq{ts};  file B: pp{} (no ts), qq{ts}
		env.IngestWait([]map[string]any{{"_id": 1, "p": "pp", "ts": 10 + r.IntN(50)}, {"_id": 2, "p": "qq", "ts": 5}})
		env.IngestWait([]map[string]any{{"_id": 3, "p": "pp", "note": "no ts"}, {"_id": 4, "p": "pp", "note": "no ts either"}, {"_id": 5, "p": "qq", "ts": 7}})
		q := bs.NewQuery().MatchPrefilter(bs.MinMax("ts", bs.NumericGreaterThanEqual(0))).Build()
		before := idsOf(env.Query(q).Rows)
		env.Cfg.MinMaxIndexes = pick(r, [][]string{nil, nil, {"other"}})
		env.Reopen()
		_, merr := env.Eng.Merge(context.Background())
		after := idsOf(env.Query(q).Rows)
		layout, lerr := h.Layout()
		replay := map[string]any{"merging_engine_MinMaxIndexes": env.Cfg.MinMaxIndexes, "compression": string(cfg.RowDataCompression), "merge_err": fmt.Sprint(merr)}
		c.r.Case(true, fmt.Sprint("keyset-reconfig", i, env.Cfg.MinMaxIndexes))
		c.r.Hit("keyset-reconfig")
		if merr != nil || lerr != nil {
			c.r.Add(Finding{Kind: "violation", Check: "keyset-reconfig-merge-failed", Detail: fmt.Sprintf("merge %v / layout %v", merr, lerr), Replay: replay})
			env.Stop()
			continue
		}
		for _, f := range layout {
			for _, b := range f.Blocks {
				has1, hasNoTs := false, false
				for _, id := range b.RowIDs {
					if id == 1 {
						has1 = true
					}
					if id == 3 || id == 4 {
						hasNoTs = true
					}
				}
				if has1 && hasNoTs {
					c.r.Add(Finding{Kind: "violation", Check: "group-key", Detail: fmt.Sprintf("output block of partition %q (minmax keys %s) combines a block that carried a ts range with a block that carried none", b.Meta.PartitionID, keySet(b.Meta)), Replay: replay})
				}
			}
		}
		if fmt.Sprint(before) != fmt.Sprint(after) {
			c.r.Add(Finding{Kind: "violation", Check: "answer-changed", Detail: fmt.Sprintf("strict prefilter ts >= 0 returned ids %v before the merge and %v after", before, after), Replay: replay})
		}
		env.Stop()
	}
}

// overlappingGroupMerges (C11): a file with blocks in two partitions next to files that each share only one
// of them - however the files are grouped, every row is stored exactly once after the merge and every query
// keeps its answer.
func overlappingGroupMerges(c *ctx) {
	r := NewRng(c.seed, 114)
	for i := 0; i < 6*c.scale; i++ {
		cfg := bs.DefaultBloomSearchEngineConfig()
		cfg.PartitionFunc = partitionFunc("p")
		cfg.MaxBufferedTime = time.Hour
		cfg.MaxFilesToMergePerOperation = 8
		cfg.RowDataCompression = pick(r, []bs.CompressionType{bs.CompressionNone, bs.CompressionSnappy})
		env := NewEnv(cfg)
		h := &History{Env: env, Rows: map[int]*StoredRow{}}
		id := 0
		mk := func(parts ...string) {
			var rows []map[string]any
			for _, p := range parts {
				id++
				rows = append(rows, map[string]any{"_id": id, "p": p, "w": "needle"})
			}
			env.IngestWait(rows)
		}
		switch i % 3 {
		case 0:
			mk("P")
			mk("Q")
			mk("P", "Q", "P", "Q", "P", "Q")
		case 1:
			mk("P", "P")
			mk("Q")
			mk("R")
			mk("P", "Q", "R", "P", "Q", "R")
		default:
			mk("P", "Q", "P", "Q", "P", "Q")
			mk("Q")
			mk("P")
			mk("P", "Q")
		}
		total := id
		_, merr := env.Eng.Merge(context.Background())
		layout, lerr := h.Layout()
		out := env.Query(&bs.Query{})
		replay := map[string]any{"shape": i % 3, "rows": total, "merge_err": fmt.Sprint(merr)}
		c.r.Case(true, fmt.Sprint("overlapping-groups", i))
		c.r.Hit("merge.overlapping-groups")
		if merr != nil || lerr != nil {
			c.r.Add(Finding{Kind: "disagreement", Check: "merge", Detail: fmt.Sprintf("healthy merge failed: %v / %v", merr, lerr), Replay: replay})
			env.Stop()
			continue
		}
		stored := map[int]int{}
		for _, f := range layout {
			for _, b := range f.Blocks {
				for _, x := range b.RowIDs {
					stored[x]++
				}
			}
		}
		got := idsOf(out.Rows)
		for x := 1; x <= total; x++ {
			if stored[x] != 1 {
				c.r.Add(Finding{Kind: "violation", Check: "rows-preserved", Detail: fmt.Sprintf("row %d is stored %d times after the merge (once before)", x, stored[x]), Replay: replay})
				break
			}
			if got[x] != 1 {
				c.r.Add(Finding{Kind: "violation", Check: "answer-changed", Detail: fmt.Sprintf("row %d is returned %d times after the merge (once before)", x, got[x]), Replay: replay})
				break
			}
		}
		env.Stop()
	}
}
