package main

// harness <property> -seed N -tier quick|thorough -model <bsxmodel> -report <file> [-replay <file>]
//
// Runs the real implementation (in-process, built from /repo with -tags verif) and the Lean
// model driver on the same inputs and writes a JSON report; the orchestrator (bin/check) turns
// it into evidence and VIOLATION lines.

import (
	"flag"
	"fmt"
	"os"
	"sort"
	"strconv"
	"sync"
	"time"
)

type ctx struct {
	seed  uint64
	tier  string
	m     *Model
	r     *Report
	scale int // 1 quick, 10 thorough
}

var props = map[string]func(*ctx){}

func main() {
	if len(os.Args) < 2 {
		names := make([]string, 0, len(props))
		for k := range props {
			names = append(names, k)
		}
		sort.Strings(names)
		fmt.Fprintln(os.Stderr, "usage: harness <property> [flags]; properties:", names)
		os.Exit(2)
	}
	prop := os.Args[1]
	if prop == "C15child" && len(os.Args) == 3 {
		c15Child(os.Args[2])
		return
	}
	if prop == "child" && len(os.Args) == 3 {
		// a scenario that may bring the process down (a panic in an engine goroutine cannot be recovered by
		// the caller): run in a process of its own, the parent judges the exit
		childScenario(os.Args[2])
		return
	}
	fs := flag.NewFlagSet(prop, flag.ExitOnError)
	seed := fs.Uint64("seed", 1, "PRNG seed")
	tier := fs.String("tier", "quick", "quick|thorough")
	model := fs.String("model", "", "path to bsxmodel")
	report := fs.String("report", "", "report file")
	fs.Parse(os.Args[2:])
	run, ok := props[prop]
	if !ok {
		fatal("unknown property %s", prop)
	}
	if *model == "" || *report == "" {
		fatal("missing -model or -report")
	}
	m, err := StartModel(*model)
	if err != nil {
		fatal("start model: %v", err)
	}
	c := &ctx{seed: *seed, tier: *tier, m: m, r: NewReport(prop, *seed, *tier), scale: 1}
	if *tier == "thorough" {
		c.scale = 10
	}
	// Time budget: a change that wedges the engine makes every later scenario wait for its watchdogs (or hang
	// in a call no watchdog covers). At the budget the report is written with what has been found so far and
	// the process exits with status 3; bin/check keeps the findings and records the run as cut short.
	budget := 600 * time.Second
	if *tier == "thorough" {
		budget = 2000 * time.Second
	}
	if v := os.Getenv("HARNESS_BUDGET_S"); v != "" {
		if n, err := strconv.Atoi(v); err == nil && n > 0 {
			budget = time.Duration(n) * time.Second
		}
	}
	var once sync.Once
	go func() {
		time.Sleep(budget)
		once.Do(func() {
			c.r.Note("run cut short at the time budget of %v: later scenarios were not run", budget)
			c.r.mu.Lock()
			c.r.Write(*report, nil)
			os.Exit(3)
		})
	}()
	run(c)
	once.Do(func() {
		m.Close()
		c.r.Write(*report, m)
	})
}
