package main

// Row, tokenizer and bloom/regex query generators, and the JSON -> protocol encoder (which parses
// the marshaled bytes with encoding/json's token stream, deliberately not gjson).

import (
	"bytes"
	"encoding/json"
	"fmt"
	"io"
	"math"
	"regexp"
	"sort"
	"strings"
	"time"
	"unicode"

	bs "github.com/danthegoodman1/bloomsearch"
)

var keyPool = []string{"a", "b", "c", "a.b", "a.b.c", "b.c", ".a", "a.", "..", ".", "", "*", "?", "\\", "a::b", "::", "ключ", "user", "name", "tags", "level", "msg", "k1", "k2", "x.y", "a*b", "日本.語", "id", "a..b", "k.", "a.b."}

var vocab = []string{"error", "warn", "info", "Hello World", "alice", "bob", "FOO bar", "a", "b", "x::y", "a.b", "timeout after 30s", "user-42", "İstanbul ẞ Σίσυφος", "ǅ Ⱥ ᲀ Ꭰꭰ",
	"tab\there", "nl\nx", "v\vt", "nbsp x", "ogham x", "em sp", "ls x", "nnbsp x", "mmsp x", "ideo　x", "nel\u0085x", "  lead", "trail  ", "", " ", "MiXeD CaSe", "ÀÉÎ õ", "é", "😀 emoji", "quote\"back\\slash", "<html>&amp;", "KK", "İ", "ſ", "ǆ", "true", "null", "12", "1e3"}

func genString(r Rng) string {
	switch r.Pick(10) {
	case 0:
		// multi-word from vocab
		n := 1 + r.IntN(3)
		parts := make([]string, n)
		for i := range parts {
			parts[i] = pick(r, vocab)
		}
		return strings.Join(parts, pick(r, []string{" ", "  ", "\t", " ", " ", "\n"}))
	case 1:
		// random runes including case/space corner cases
		n := r.IntN(6)
		var b strings.Builder
		for i := 0; i < n; i++ {
			switch r.Pick(4) {
			case 0:
				b.WriteRune(rune(0x20 + r.IntN(0x5f)))
			case 1:
				b.WriteRune(pick(r, []rune{0x130, 0x1e9e, 0x3a3, 0x23a, 0x10a0, 0x13a0, 0xab70, 0x1c5, 0x212a, 0x2126, 0x1e921, 0x10400, 0x2c62, 0xa7ae}))
			case 2:
				b.WriteRune(pick(r, []rune{9, 10, 11, 12, 13, 32, 0x85, 0xa0, 0x1680, 0x2000, 0x200a, 0x200b, 0x2028, 0x2029, 0x202f, 0x205f, 0x3000, 0x180e, 0xfeff}))
			default:
				cp := rune(r.IntN(0x2fff))
				if cp >= 0xd800 && cp <= 0xdfff {
					cp = 0x41
				}
				b.WriteRune(cp)
			}
		}
		return b.String()
	default:
		return pick(r, vocab)
	}
}

var rawPool = []string{
	`{"a":1,"a":2}`, `{"x":{"y":1},"x":{"y":2,"z":"dup"}}`, `"escA\n\t\"\\\/"`, `"😀 pair"`, `1e3`, `1E+2`, `-0`, `-0.0`, `1.50`, `9007199254740993`, `123456789012345678901234567890`,
	`0.1e-7`, `[1,[2,[3]]]`, `{"":{"a":1}}`, `{"a.b":{"c.d":"v"}}`, `[]`, `{}`, `null`, `true`, `[{"k":"v"},{"k":"w"}]`, `{"a":{"b":"deep"},"a.b":"flat"}`, `"é́"`, `18446744073709551616`, `1.7976931348623157e308`,
}

func genValue(r Rng, depth int) any {
	k := r.Pick(16)
	if depth <= 0 && k >= 11 {
		k = r.Pick(11)
	}
	switch {
	case k < 5:
		return genString(r)
	case k < 8:
		nc := genNum(r)
		for nc.Tok == "" || nc.Tok == "pinf" || nc.Tok == "ninf" { // must marshal
			nc = genNum(r)
		}
		return nc.Go
	case k == 8:
		return r.Chance(0.5)
	case k == 9:
		return nil
	case k == 10:
		return json.RawMessage(pick(r, rawPool))
	case k < 14:
		return genObject(r, depth-1, 1+r.IntN(3))
	default:
		n := r.IntN(4)
		arr := make([]any, n)
		for i := range arr {
			arr[i] = genValue(r, depth-1)
		}
		return arr
	}
}

func genObject(r Rng, depth, n int) map[string]any {
	m := map[string]any{}
	for i := 0; i < n; i++ {
		m[pick(r, keyPool)] = genValue(r, depth)
	}
	return m
}

// genRow draws a row; id is stored under "_id".
func genRow(r Rng, id int) map[string]any {
	m := genObject(r, 3, 1+r.IntN(5))
	m["_id"] = id
	return m
}

// ---------------------------------------------------------------- JSON -> protocol

// jsonTok appends the prefix-form encoding of one JSON document (see Driver/Content.lean pJson).
func jsonTok(t *toks, data []byte) error {
	dec := json.NewDecoder(bytes.NewReader(data))
	dec.UseNumber()
	if err := jsonValueTok(t, dec); err != nil {
		return err
	}
	if _, err := dec.Token(); err != io.EOF {
		return fmt.Errorf("trailing data")
	}
	return nil
}

func jsonValueTok(t *toks, dec *json.Decoder) error {
	tk, err := dec.Token()
	if err != nil {
		return err
	}
	return jsonFromTok(t, dec, tk)
}

func jsonFromTok(t *toks, dec *json.Decoder, tk json.Token) error {
	switch v := tk.(type) {
	case nil:
		t.add("n")
	case bool:
		if v {
			t.add("t")
		} else {
			t.add("f")
		}
	case json.Number:
		t.add("d").s(string(v))
	case string:
		t.add("s").s(v)
	case json.Delim:
		switch v {
		case '[':
			var sub toks
			n := 0
			for dec.More() {
				if err := jsonValueTok(&sub, dec); err != nil {
					return err
				}
				n++
			}
			if _, err := dec.Token(); err != nil {
				return err
			}
			t.add("a").n(n)
			if n > 0 {
				t.add(sub.String())
			}
		case '{':
			var sub toks
			n := 0
			for dec.More() {
				kt, err := dec.Token()
				if err != nil {
					return err
				}
				sub.s(kt.(string))
				if err := jsonValueTok(&sub, dec); err != nil {
					return err
				}
				n++
			}
			if _, err := dec.Token(); err != nil {
				return err
			}
			t.add("o").n(n)
			if n > 0 {
				t.add(sub.String())
			}
		default:
			return fmt.Errorf("unexpected delim %v", v)
		}
	}
	return nil
}

// ---------------------------------------------------------------- tokenizers

type tokMode struct {
	name string
	fn   bs.ValueTokenizerFunc
}

func splitNonAlnum(v string) []string {
	return strings.FieldsFunc(v, func(r rune) bool { return !(unicode.IsLetter(r) || unicode.IsDigit(r)) })
}

func prefix3(v string) []string {
	rs := []rune(v)
	out := []string{v}
	if len(rs) > 3 {
		out = append(out, string(rs[:3]))
	}
	return out
}

var tokModes = []tokMode{
	{"default", bs.BasicWhitespaceLowerTokenizer},
	{"nonalnum", splitNonAlnum},
	{"whole+prefix3", prefix3},
}

// tokTableTok encodes the tokenizer for the model: D for the default, otherwise a table over
// the given leaf texts.
func tokTableTok(t *toks, tm tokMode, texts []string) {
	if tm.name == "default" {
		t.add("D")
		return
	}
	seen := map[string]bool{}
	var uniq []string
	for _, x := range texts {
		if !seen[x] {
			seen[x] = true
			uniq = append(uniq, x)
		}
	}
	t.add("T").n(len(uniq))
	for _, x := range uniq {
		ts := tm.fn(x)
		t.s(x).n(len(ts))
		for _, k := range ts {
			t.s(k)
		}
	}
}

// leafTexts returns the canonical texts of a row's primitive leaves (from the production walker).
func leafTexts(rowBytes []byte) []string {
	var out []string
	for _, e := range bs.VerifWalk(rowBytes, ".") {
		if e.IsLeaf && e.HasText {
			out = append(out, e.Text)
		}
	}
	return out
}

// ---------------------------------------------------------------- bloom / regex queries

type pools struct {
	paths  []string
	tokens []string
	pairs  [][2]string
	texts  []string
	leaves []leafInfo
}

// leafInfo is one text leaf of a generated row: its path and its tokens in order (duplicates kept).
type leafInfo struct {
	path string
	toks []string
}

func buildPools(rows [][]byte, tm tokMode) *pools {
	p := &pools{}
	ps, ts := map[string]struct{}{}, map[string]struct{}{}
	pairs := map[[2]string]struct{}{}
	for _, rb := range rows {
		for _, e := range bs.VerifWalk(rb, ".") {
			ps[e.Path] = struct{}{}
			if e.IsLeaf && e.HasText {
				p.texts = append(p.texts, e.Text)
				if lt := tm.fn(e.Text); len(lt) > 0 {
					p.leaves = append(p.leaves, leafInfo{e.Path, lt})
				}
				for _, tk := range tm.fn(e.Text) {
					ts[tk] = struct{}{}
					pairs[[2]string{e.Path, tk}] = struct{}{}
				}
			}
		}
	}
	p.paths, p.tokens = sortedStrings(ps), sortedStrings(ts)
	for k := range pairs {
		p.pairs = append(p.pairs, k)
	}
	sort.Slice(p.pairs, func(i, j int) bool {
		if p.pairs[i][0] != p.pairs[j][0] {
			return p.pairs[i][0] < p.pairs[j][0]
		}
		return p.pairs[i][1] < p.pairs[j][1]
	})
	return p
}

func nearMiss(r Rng, s string) string {
	switch r.Pick(5) {
	case 0:
		return strings.ToUpper(s)
	case 1:
		if rs := []rune(s); len(rs) > 1 {
			return string(rs[:len(rs)-1])
		}
		return s + "x"
	case 2:
		return s + "."
	case 3:
		return s + ".x"
	default:
		if i := strings.LastIndex(s, "."); i > 0 {
			return s[:i]
		}
		return "z" + s
	}
}

func (p *pools) path(r Rng) string {
	if len(p.paths) > 0 && r.Chance(0.7) {
		return pick(r, p.paths)
	}
	if len(p.paths) > 0 && r.Chance(0.6) {
		return nearMiss(r, pick(r, p.paths))
	}
	return pick(r, keyPool)
}

func (p *pools) token(r Rng) string {
	if len(p.tokens) > 0 && r.Chance(0.7) {
		return pick(r, p.tokens)
	}
	if len(p.tokens) > 0 && r.Chance(0.6) {
		return nearMiss(r, pick(r, p.tokens))
	}
	return pick(r, []string{"", "nope", "ERROR", "hello world"})
}

func (p *pools) cond(r Rng) *bs.BloomCondition {
	switch r.Pick(20) {
	case 0:
		return &bs.BloomCondition{Type: "WEIRD", Field: p.path(r), Token: p.token(r)}
	case 1, 2, 3, 4, 5, 6:
		return &bs.BloomCondition{Type: bs.BloomField, Field: p.path(r)}
	case 7, 8, 9, 10, 11, 12:
		return &bs.BloomCondition{Type: bs.BloomToken, Token: p.token(r)}
	default:
		if len(p.pairs) > 0 && r.Chance(0.65) {
			pr := pick(r, p.pairs)
			return &bs.BloomCondition{Type: bs.BloomFieldToken, Field: pr[0], Token: pr[1]}
		}
		return &bs.BloomCondition{Type: bs.BloomFieldToken, Field: p.path(r), Token: p.token(r)}
	}
}

// leafExpr builds a tree whose conditions all talk about ONE leaf of ONE row: several Token / FieldToken
// conditions over that leaf's own tokens (repeats, word order, reverse order, the same word under two
// condition kinds), occasionally a near miss or the leaf's Field. Random pools almost never put two
// satisfiable token conditions on the same leaf, which is exactly where a matcher's per-leaf bookkeeping
// can go wrong.
func (p *pools) leafExpr(r Rng) bs.BloomExpression {
	lf := pick(r, p.leaves)
	n := 2 + r.IntN(3)
	var idx []int
	for i := 0; i < n; i++ {
		idx = append(idx, r.IntN(len(lf.toks)))
	}
	switch r.Pick(4) {
	case 0:
		sort.Ints(idx) // word order
	case 1:
		sort.Sort(sort.Reverse(sort.IntSlice(idx)))
	case 2:
		idx[1] = idx[0] // the same word twice
	}
	var conds []bs.BloomExpression
	for _, i := range idx {
		tk := lf.toks[i]
		if r.Chance(0.08) {
			tk = nearMiss(r, tk)
		}
		c := &bs.BloomCondition{Type: bs.BloomToken, Token: tk}
		switch r.Pick(5) {
		case 0, 1:
			c = &bs.BloomCondition{Type: bs.BloomFieldToken, Field: lf.path, Token: tk}
		case 2:
			if r.Chance(0.3) {
				c = &bs.BloomCondition{Type: bs.BloomField, Field: lf.path}
			}
		}
		conds = append(conds, bs.BloomExpression{ExpressionType: bs.BloomExpressionCondition, Condition: c})
	}
	typ := bs.BloomExpressionAnd
	if r.Chance(0.2) {
		typ = bs.BloomExpressionOr
	}
	e := bs.BloomExpression{ExpressionType: typ, Children: conds}
	if r.Chance(0.25) && len(conds) > 2 {
		// nest: (c0 op c1) op' rest
		inner := bs.BloomExpression{ExpressionType: pick(r, []bs.BloomExpressionType{bs.BloomExpressionAnd, bs.BloomExpressionOr}), Children: conds[:2]}
		e.Children = append([]bs.BloomExpression{inner}, conds[2:]...)
	}
	return e
}

func genBloomExpr(r Rng, p *pools, depth int) bs.BloomExpression {
	k := r.Pick(12)
	if depth <= 0 && k >= 5 {
		k = r.Pick(5)
	}
	switch {
	case k < 5:
		e := bs.BloomExpression{ExpressionType: bs.BloomExpressionCondition}
		if !r.Chance(0.04) {
			e.Condition = p.cond(r)
		}
		return e
	case k < 11:
		e := bs.BloomExpression{ExpressionType: bs.BloomExpressionAnd}
		if k >= 8 {
			e.ExpressionType = bs.BloomExpressionOr
		}
		n := r.IntN(4)
		if r.Chance(0.9) && n == 0 {
			n = 1
		}
		for i := 0; i < n; i++ {
			e.Children = append(e.Children, genBloomExpr(r, p, depth-1))
		}
		return e
	default:
		return bs.BloomExpression{ExpressionType: "NAND", Children: []bs.BloomExpression{genBloomExpr(r, p, depth-1)}}
	}
}

var patternPool = []string{"^err", "(?i)hello", `\d+`, "a|b", "^$", ".", "[A-Z]+", "world$", "^true$", `^-?\d+(\.\d+)?$`, "alice", "e", `\s`, "^warn|^info", "x::y", `^\p{Lu}`, "(", "[", "*"}

func genRegexExpr(r Rng, p *pools, depth int, allowInvalid bool) bs.RegexExpression {
	k := r.Pick(12)
	if depth <= 0 && k >= 6 {
		k = r.Pick(6)
	}
	switch {
	case k < 6:
		e := bs.RegexExpression{ExpressionType: bs.RegexExpressionCondition}
		if !r.Chance(0.05) {
			pat := pick(r, patternPool)
			for !allowInvalid && !patternOK(pat) {
				pat = pick(r, patternPool)
			}
			f := p.path(r)
			if r.Chance(0.04) {
				f = ""
			}
			e.Condition = &bs.RegexCondition{Field: f, Pattern: pat}
		}
		return e
	case k < 11 || !allowInvalid:
		e := bs.RegexExpression{ExpressionType: bs.RegexExpressionAnd}
		if k >= 9 {
			e.ExpressionType = bs.RegexExpressionOr
		}
		n := r.IntN(3)
		if n == 0 && r.Chance(0.85) {
			n = 1
		}
		for i := 0; i < n; i++ {
			e.Children = append(e.Children, genRegexExpr(r, p, depth-1, allowInvalid))
		}
		return e
	default:
		return bs.RegexExpression{ExpressionType: "NOT", Children: []bs.RegexExpression{genRegexExpr(r, p, depth-1, allowInvalid)}}
	}
}

func patternOK(p string) bool { _, err := regexp.Compile(p); return err == nil }

func bloomExprTok(t *toks, e *bs.BloomExpression) {
	t.add("E").s(string(e.ExpressionType))
	if e.Condition == nil {
		t.add("N")
	} else {
		t.add("S").s(string(e.Condition.Type)).s(e.Condition.Field).s(e.Condition.Token)
	}
	t.n(len(e.Children))
	for i := range e.Children {
		bloomExprTok(t, &e.Children[i])
	}
}

func bloomQueryTok(t *toks, q *bs.BloomQuery) {
	if q == nil || q.Expression == nil {
		t.add("N")
		return
	}
	t.add("S")
	bloomExprTok(t, q.Expression)
}

func regexExprTok(t *toks, e *bs.RegexExpression) {
	t.add("E").s(string(e.ExpressionType))
	if e.Condition == nil {
		t.add("N")
	} else {
		t.add("S").s(e.Condition.Field).s(e.Condition.Pattern)
	}
	t.n(len(e.Children))
	for i := range e.Children {
		regexExprTok(t, &e.Children[i])
	}
}

func regexQueryTok(t *toks, q *bs.RegexQuery) {
	if q == nil || q.Expression == nil {
		t.add("N")
		return
	}
	t.add("S")
	regexExprTok(t, q.Expression)
}

func regexPatterns(e *bs.RegexExpression, out map[string]bool) {
	if e == nil {
		return
	}
	if e.Condition != nil {
		out[e.Condition.Pattern] = true
	}
	for i := range e.Children {
		regexPatterns(&e.Children[i], out)
	}
}

// oracleTok ships Go regexp verdicts for every (pattern, leaf text) pair of the row.
func oracleTok(t *toks, q *bs.RegexQuery, texts []string) {
	pats := map[string]bool{}
	if q != nil {
		regexPatterns(q.Expression, pats)
	}
	var sub toks
	n := 0
	seen := map[[2]string]bool{}
	for p := range pats {
		re, err := regexp.Compile(p)
		if err != nil {
			continue
		}
		for _, x := range texts {
			if seen[[2]string{p, x}] {
				continue
			}
			seen[[2]string{p, x}] = true
			sub.s(p).s(x).add(b2s(re.MatchString(x)))
			n++
		}
	}
	t.n(n)
	if n > 0 {
		t.add(sub.String())
	}
}

// marshalable reports whether v marshals (NaN/Inf and some raw messages do not).
func mustMarshal(v any) ([]byte, bool) {
	b, err := json.Marshal(v)
	return b, err == nil
}

var _ = math.Pi
var _ = time.Second
