package main

// C20 (cursor terminal state), C21 (resources released), C22 (I/O within MaxQueryConcurrency),
// C23 (statistics), C24 (pruning): query schedules over real layouts with an auditing DataStore.

import (
	"context"
	"errors"
	"fmt"
	"github.com/bits-and-blooms/bloom/v3"
	"iter"
	"runtime"
	"sort"
	"strconv"
	"strings"
	"sync"
	"time"

	bs "github.com/danthegoodman1/bloomsearch"
)

func init() {
	for _, p := range []string{"C20", "C21", "C22", "C23", "C24"} {
		p := p
		props[p] = func(c *ctx) { runQuerySide(c, p) }
	}
}

type iterErrMeta struct {
	bs.MetaStore
	after int // yield an error after this many files (<0 = never)
	hit   *bool
}

func (m *iterErrMeta) GetMaybeFilesForQuery(ctx context.Context, q *bs.QueryPrefilter) iter.Seq2[bs.MaybeFile, error] {
	inner := m.MetaStore.GetMaybeFilesForQuery(ctx, q)
	return func(yield func(bs.MaybeFile, error) bool) {
		n := 0
		for f, err := range inner {
			if m.after >= 0 && n == m.after {
				*m.hit = true
				yield(bs.MaybeFile{}, errInjected)
				return
			}
			n++
			if !yield(f, err) {
				return
			}
		}
	}
}

type qScenario struct {
	CancelAt   int // cancel the Query context before the i-th Next (-1 never)
	CloseAt    int // Close before the i-th Next (-1 never)
	StallAt    int
	StallMs    int
	FaultOp    string // "", "open", "read"
	FaultK     int
	IterErr    int // -1 never
	Engine     string
	Concurrent bool // Close from another goroutine while Next runs
	Deadline   bool // the Query context ends by deadline (DeadlineExceeded) instead of an explicit cancel
}

// manualCtx is a context whose end is triggered by the schedule and reports the chosen error.
type manualCtx struct {
	done chan struct{}
	once sync.Once
	mu   sync.Mutex
	err  error
}

func newManualCtx() *manualCtx { return &manualCtx{done: make(chan struct{})} }
func (m *manualCtx) end(err error) {
	m.once.Do(func() {
		m.mu.Lock()
		m.err = err
		m.mu.Unlock()
		close(m.done)
	})
}
func (m *manualCtx) Deadline() (time.Time, bool) { return time.Time{}, false }
func (m *manualCtx) Done() <-chan struct{}       { return m.done }
func (m *manualCtx) Value(any) any               { return nil }
func (m *manualCtx) Err() error {
	m.mu.Lock()
	defer m.mu.Unlock()
	return m.err
}

type qResult struct {
	rows        []map[string]any
	err1        error
	again       bool
	err2, err3  error
	closeErr    error
	canceled    bool // canceled before the Next that returned false began
	closedEarly bool
	faultHit    bool
	iterHit     bool
	stats       bs.QueryStats
	rowAfter    map[string]any
	semInUse    int
	goAtFalse   int // goroutines above the pre-Query baseline once Next had returned false (before any later Close / cancel)
}

func runQueryScenario(h *History, q *bs.Query, sc qScenario) qResult {
	var out qResult
	store := h.Env.Data
	store.ResetLog()
	store.ClearFaults()
	if sc.FaultOp != "" {
		store.SetFaults([]string{sc.FaultOp}, sc.FaultK)
	}
	meta := bs.MetaStore(h.Env.Meta)
	iterHit := false
	if sc.IterErr >= 0 {
		meta = &iterErrMeta{MetaStore: h.Env.Meta, after: sc.IterErr, hit: &iterHit}
	}
	eng, err := bs.NewBloomSearchEngine(h.Env.Cfg, meta, store)
	if err != nil {
		fatal("engine: %v", err)
	}
	switch sc.Engine {
	case "started":
		eng.Start()
		defer eng.Stop(context.Background())
	case "stopped":
		eng.Start()
		eng.Stop(context.Background())
	}
	mctx := newManualCtx()
	cancel := func() {
		if sc.Deadline {
			mctx.end(context.DeadlineExceeded)
		} else {
			mctx.end(context.Canceled)
		}
	}
	defer cancel()
	var ctx context.Context = mctx
	gBase := runtime.NumGoroutine()
	res, err := eng.Query(ctx, q)
	if err != nil {
		out.err1 = err
		return out
	}
	var wg sync.WaitGroup
	for i := 0; ; i++ {
		if i == sc.CancelAt {
			cancel()
			out.canceled = true
		}
		if i == sc.CloseAt {
			if sc.Concurrent {
				wg.Add(1)
				go func() { defer wg.Done(); res.Close() }()
			} else {
				res.Close()
			}
			out.closedEarly = true
		}
		if i == sc.StallAt {
			time.Sleep(time.Duration(sc.StallMs) * time.Millisecond)
		}
		if !res.Next() {
			break
		}
		out.rows = append(out.rows, res.Row())
		if i > 100000 {
			break
		}
	}
	wg.Wait()
	// Next has returned false: whatever the query started must be gone now, before any further Close or cancel
	// (the Query context is a non-standard Context type, so a derived context keeps a watcher goroutine alive
	// until it is cancelled)
	if n := waitGoroutines(gBase); n > gBase {
		out.goAtFalse = n - gBase
	}
	out.rowAfter = res.Row()
	out.err1 = res.Err()
	out.again = res.Next()
	out.err2 = res.Err()
	out.closeErr = res.Close()
	out.err3 = res.Err()
	res.Close()
	out.stats = res.Stats()
	for _, cl := range store.Log() {
		if cl.Err {
			out.faultHit = true
		}
	}
	out.iterHit = iterHit
	store.ClearFaults()
	out.semInUse = eng.VerifSemaphoreInUse()
	return out
}

func errStr(e error) string {
	if e == nil {
		return "<nil>"
	}
	return e.Error()
}

func waitGoroutines(base int) int {
	n := runtime.NumGoroutine()
	for i := 0; i < 200 && n > base; i++ {
		time.Sleep(2 * time.Millisecond)
		n = runtime.NumGoroutine()
	}
	return n
}

func genQScenario(r Rng, which string) qScenario {
	sc := qScenario{CancelAt: -1, CloseAt: -1, StallAt: -1, IterErr: -1, Engine: pick(r, []string{"never", "never", "started", "stopped"})}
	switch r.Pick(10) {
	case 0, 1:
		sc.CancelAt = r.IntN(6)
		sc.Deadline = r.Chance(0.5)
	case 2, 3:
		sc.CloseAt = r.IntN(6)
		sc.Concurrent = r.Chance(0.4)
	case 4:
		sc.CancelAt = r.IntN(4)
		sc.CloseAt = sc.CancelAt + r.IntN(2)
		sc.Deadline = r.Chance(0.5)
	case 5:
		sc.StallAt = r.IntN(4)
		sc.StallMs = 5 + r.IntN(20)
	}
	if which == "C23" || which == "C24" {
		// statistics / pruning are judged on uncancelled queries; keep most schedules plain
		if r.Chance(0.7) {
			sc.CancelAt, sc.CloseAt = -1, -1
		}
	}
	if r.Chance(0.3) {
		sc.FaultOp = pick(r, []string{"open", "read"})
		sc.FaultK = 1 + r.IntN(12)
	}
	if r.Chance(0.1) {
		sc.IterErr = r.IntN(4)
	}
	return sc
}

func runQuerySide(c *ctx, which string) {
	c.r.Rule = "query schedules over layouts produced by random histories (many files and blocks, partitions, external files without filters): Next/Close/cancel at every position incl. Close concurrent with Next, stalled consumers, " +
		"OpenFile/Read failures at the k-th call, MetaStore iterator errors, engines never started / started / stopped; an auditing DataStore logs opens, reads (extents), closes per handle. " +
		"C20: terminal state vs the Lean cursor model and the property; C21: handles, semaphore, goroutines; C22: concurrent reads vs the cap with a stalled query; C23/C24: stats and read extents vs the Lean read plan. " +
		"Non-trivial = the query had at least one candidate block; distinct by (population, query, schedule)"
	r := NewRng(c.seed, 2000)
	directedQuerySide(c, NewRng(c.seed, 2001), which)
	pops := 4 * c.scale
	for pi := 0; pi < pops; pi++ {
		h := NewHistory(r)
		h.Env.Cfg.MaxQueryConcurrency = pick(r, []int{1, 2, 3, 8})
		h.Run(r, 12+r.IntN(8), c.r)
		layout, err := h.Layout()
		if err != nil {
			h.Env.Stop()
			continue
		}
		h.Env.Stop()
		var rowBytes [][]byte
		blockOf := map[int]string{}
		for _, f := range layout {
			for _, b := range f.Blocks {
				rowBytes = append(rowBytes, b.Rows...)
				for _, id := range b.RowIDs {
					blockOf[id] = fmt.Sprint(f.Ptr, "@", b.Meta.RowDataOffset)
				}
			}
		}
		p := buildPools(rowBytes, h.TM)
		base := runtime.NumGoroutine()
		nq := 25
		for qi := 0; qi < nq; qi++ {
			q := genQuery(r, p, false)
			q.Prefilter = genPrefilterFor(r, h)
			sc := genQScenario(r, which)
			out := runQueryScenario(h, q, sc)
			key := fmt.Sprint(pi, qi, sc)
			c.r.Case(len(out.stats.BlockStats) > 0, key)
			replay := map[string]any{"ops": h.Ops, "query": q, "schedule": sc, "rows": len(out.rows), "err": errStr(out.err1)}
			if qi < 1 && pi < 2 {
				c.r.Sample(replay)
			}
			switch which {
			case "C20":
				checkCursor(c, out, sc, replay)
			case "C21":
				if n := h.Env.Data.OpenHandles(); n != 0 {
					c.r.Add(Finding{Kind: "violation", Check: "handles-left-open", Detail: fmt.Sprintf("%d DataStore handles still open after the query ended", n), Replay: replay})
				}
				if m := h.Env.Data.Misuses(); len(m) > 0 {
					c.r.Add(Finding{Kind: "violation", Check: "handle-misuse", Detail: "handle discipline breached: " + strings.Join(m[:min(3, len(m))], "; "), Replay: replay})
				}
				if n := waitGoroutines(base); n > base {
					c.r.Add(Finding{Kind: "violation", Check: "goroutines-left", Detail: fmt.Sprintf("%d goroutines still running after the query ended (baseline %d)", n, base), Replay: replay})
				}
				if out.goAtFalse > 0 {
					c.r.Add(Finding{Kind: "violation", Check: "goroutines-left", Detail: fmt.Sprintf("%d goroutine(s) started for the query were still running 400ms after Next had returned false (before any later Close or cancel; the Query context is a non-standard Context type)", out.goAtFalse), Replay: replay})
				}
				if out.semInUse != 0 {
					c.r.Add(Finding{Kind: "violation", Check: "semaphore-not-restored", Detail: fmt.Sprintf("%d query-semaphore slots still taken after the query ended", out.semInUse), Replay: replay})
				}
			case "C23", "C24":
				checkStatsAndReads(c, h, layout, q, sc, out, blockOf, which, replay)
			}
		}
		if which == "C21" {
			poolDiff(c, r, h)
			poolManyHandles(c, h)
		}
		if which == "C22" {
			concurrencyRuns(c, r, h, p)
		}
	}
}

// ---------------------------------------------------------------- C20

func checkCursor(c *ctx, out qResult, sc qScenario, replay map[string]any) {
	if out.again {
		c.r.Add(Finding{Kind: "violation", Check: "next-true-after-false", Detail: "Next returned true after it had returned false", Replay: replay})
	}
	if out.rowAfter != nil {
		c.r.Add(Finding{Kind: "violation", Check: "row-after-false", Detail: "Row() is non-nil after Next returned false", Replay: replay})
	}
	if out.closeErr != nil {
		c.r.Add(Finding{Kind: "violation", Check: "close-error", Detail: "Close returned " + out.closeErr.Error(), Replay: replay})
	}
	if errStr(out.err1) != errStr(out.err2) || errStr(out.err1) != errStr(out.err3) {
		c.r.Add(Finding{Kind: "violation", Check: "terminal-state-changed", Detail: fmt.Sprintf("Err changed after the terminal state was decided: %q -> %q -> %q", errStr(out.err1), errStr(out.err2), errStr(out.err3)), Replay: replay})
	}
	class := "clean"
	switch {
	case out.err1 != nil && (errors.Is(out.err1, context.Canceled) || errors.Is(out.err1, context.DeadlineExceeded)):
		class = "canceled"
	case out.err1 != nil:
		class = "failures"
	}
	c.r.Hit("cursor.terminal." + class)
	if out.canceled && class != "canceled" {
		key := ""
		if sc.CloseAt >= 0 && sc.CloseAt >= sc.CancelAt {
			key = "cancel-then-close-reads-as-complete"
		}
		c.r.Add(Finding{Kind: "violation", Check: "canceled-query-not-reported", Key: key, Detail: fmt.Sprintf("the Query context was canceled before the final Next, but Err() is %q", errStr(out.err1)), Replay: replay})
	}
	if !out.canceled && class == "canceled" {
		c.r.Add(Finding{Kind: "violation", Check: "spurious-cancel", Detail: "Err() reports cancellation although the Query context was never canceled", Replay: replay})
	}
	if !out.canceled && !out.closedEarly {
		if (out.faultHit || out.iterHit) && class == "clean" {
			c.r.Add(Finding{Kind: "violation", Check: "failure-not-reported", Detail: "a store / MetaStore failure was injected and reached, the query was neither canceled nor closed early, but Err() is nil", Replay: replay})
		}
		if !out.faultHit && !out.iterHit && class != "clean" {
			c.r.Add(Finding{Kind: "violation", Check: "spurious-error", Detail: "nothing failed and the query was not canceled, but Err() is " + errStr(out.err1), Replay: replay})
		}
	}
	// the Lean cursor model on the canonical trace of this schedule
	var evs []string
	if out.faultHit || out.iterHit {
		evs = append(evs, "record")
	}
	if out.canceled {
		evs = append(evs, "cancel")
	}
	evs = append(evs, "workersdone")
	if out.closedEarly {
		evs = append(evs, "close")
	}
	evs = append(evs, "enter")
	if out.canceled || out.closedEarly {
		evs = append(evs, "falseterm")
	} else {
		evs = append(evs, "falseclean")
	}
	evs = append(evs, "close", "close")
	resp := c.m.Ask(fmt.Sprintf("cur %d %s", len(evs), strings.Join(evs, " ")))
	if !strings.HasPrefix(resp, "ok ") {
		c.r.Add(Finding{Kind: "disagreement", Check: "cursor-model", Detail: "canonical trace rejected by the Lean cursor model: " + resp, Replay: replay})
		return
	}
	mclass := strings.SplitN(strings.Fields(resp)[1], ":", 2)[0]
	if !out.closedEarly || out.canceled {
		// (a Close before the failure is recorded legitimately freezes "clean")
		if mclass != class && !(out.closedEarly && !out.canceled) {
			c.r.Add(Finding{Kind: "disagreement", Check: "cursor-model", Detail: fmt.Sprintf("terminal state %s, Lean cursor model %s", class, mclass), Replay: replay})
		}
	}
}

// ---------------------------------------------------------------- C23 / C24

func checkStatsAndReads(c *ctx, h *History, layout []FileObs, q *bs.Query, sc qScenario, out qResult, blockOf map[int]string, which string, replay map[string]any) {
	st := out.stats
	seen := map[string]int{}
	for _, b := range st.BlockStats {
		seen[fmt.Sprint(string(b.FilePointer), "@", b.BlockOffset)]++
	}
	if which == "C23" {
		for k, n := range seen {
			if n > 1 {
				c.r.Add(Finding{Kind: "violation", Check: "block-listed-twice", Detail: fmt.Sprintf("block %s appears %d times in BlockStats", k, n), Replay: replay})
			}
		}
		for _, b := range st.BlockStats {
			if b.BloomFilterSkipped && (b.RowsProcessed != 0 || b.BytesProcessed != 0) {
				c.r.Add(Finding{Kind: "violation", Check: "skipped-nonzero", Detail: fmt.Sprintf("skipped block %s@%d reports %d rows / %d bytes processed", b.FilePointer, b.BlockOffset, b.RowsProcessed, b.BytesProcessed), Replay: replay})
			}
		}
		for _, row := range out.rows {
			if f, ok := row["_id"].(float64); ok {
				k := blockOf[int(f)]
				if seen[k] == 0 {
					c.r.Add(Finding{Kind: "violation", Check: "returned-row-block-unlisted", Detail: fmt.Sprintf("row %d was returned but its block %s is not in BlockStats", int(f), k), Replay: replay})
				}
			}
		}
		var rowsSum, bytesSum int64
		skipped, processed := 0, 0
		for _, b := range st.BlockStats {
			rowsSum += b.RowsProcessed
			bytesSum += b.BytesProcessed
			if b.BloomFilterSkipped {
				skipped++
			} else {
				processed++
			}
		}
		if st.RowsScanned != rowsSum || st.BytesScanned != bytesSum || st.BlocksSkipped != skipped || st.BlocksProcessed != processed {
			c.r.Add(Finding{Kind: "violation", Check: "totals-mismatch", Detail: fmt.Sprintf("totals (rows %d bytes %d skipped %d processed %d) are not the per-block sums (%d %d %d %d)", st.RowsScanned, st.BytesScanned, st.BlocksSkipped, st.BlocksProcessed, rowsSum, bytesSum, skipped, processed), Replay: replay})
		}
	}
	if out.canceled || out.closedEarly {
		return
	}
	clean := !out.faultHit && !out.iterHit && out.err1 == nil
	// verdicts: prefilter from the Lean model, filters from the files' own filters
	// the prune query (bloom expression AND the regex trees' field guard) comes from the Lean model, not from
	// the implementation under test; the two are compared
	var pt toks
	pt.add("prune")
	bloomQueryTok(&pt, q.Bloom)
	regexQueryTok(&pt, q.Regex)
	modelPrune := c.m.Ask(pt.String())
	var it toks
	bloomQueryTok(&it, bs.VerifPruneQuery(q))
	if modelPrune != it.String() {
		c.r.Add(Finding{Kind: "disagreement", Check: "prune-query", Detail: "the implementation's prune query (row bloom query AND regex field guard) differs from the Lean pruneBloom", Replay: map[string]any{"query": q, "impl": it.String(), "model": modelPrune}})
	}
	prune := &bs.BloomQuery{}
	if f := strings.Fields(modelPrune); len(f) > 1 && f[0] == "S" {
		pos := 1
		e := parseBloomExprToks(f, &pos)
		prune.Expression = &e
	}
	hasBloom := prune != nil && prune.Expression != nil
	hasPre := q.Prefilter != nil && q.Prefilter.Expression != nil
	t := (&toks{}).add("qplan").add(b2s(hasBloom)).n(len(layout))
	type blk struct {
		file string
		meta bs.DataBlockMetadata
	}
	var allBlocks []blk
	for _, f := range layout {
		fm := f.Meta
		t.add(b2s(filtersAdmit(&fm.BloomFilters, prune))).n(len(f.Blocks))
		for _, b := range f.Blocks {
			pre := true
			if hasPre {
				pt := (&toks{}).add("pre")
				bm := b.Meta
				metaTok(pt, &bm)
				prefilterTok(pt, q.Prefilter)
				pre = c.m.Ask(pt.String()) == "1"
			}
			fl := true
			if b.Filters != nil {
				fl = filtersAdmit(b.Filters, prune)
			}
			t.n(b.Meta.RowDataOffset).n(b.Meta.Rows).add(b2s(pre)).add(b2s(fl)).n(b.Meta.BloomFilterSize)
			allBlocks = append(allBlocks, blk{f.Ptr, b.Meta})
		}
	}
	plans := strings.Split(c.m.Ask(t.String()), " | ")
	wantStats := map[string]string{}
	wantOpen := map[string]bool{}
	wantRegion := map[string]bool{}
	for fi, f := range layout {
		pf := strings.Fields(plans[fi])
		wantOpen[f.Ptr] = pf[0] == "1"
		wantRegion[f.Ptr] = pf[1] == "1"
		n := 0
		fmt.Sscan(pf[2], &n)
		for k := 0; k < n; k++ {
			wantStats[fmt.Sprint(f.Ptr, "@", pf[3+2*k])] = pf[4+2*k]
		}
	}
	if which == "C23" {
		// all or none per file (failures allowed)
		for _, f := range layout {
			listed, owed := 0, 0
			for k := range wantStats {
				if strings.HasPrefix(k, f.Ptr+"@") {
					owed++
					if seen[k] > 0 {
						listed++
					}
				}
			}
			if listed != 0 && listed != owed && !out.iterHit {
				c.r.Add(Finding{Kind: "violation", Check: "all-or-none", Detail: fmt.Sprintf("file %s: %d of its %d prefilter-surviving blocks are listed in BlockStats", f.Ptr, listed, owed), Replay: replay})
			}
		}
		if clean {
			got := map[string]string{}
			for _, b := range st.BlockStats {
				k := fmt.Sprint(string(b.FilePointer), "@", b.BlockOffset)
				if b.BloomFilterSkipped {
					got[k] = "S"
				} else {
					got[k] = "P"
					if b.RowsProcessed != b.TotalRows {
						c.r.Add(Finding{Kind: "violation", Check: "processed-rows", Detail: fmt.Sprintf("clean completion but processed block %s scanned %d of %d rows", k, b.RowsProcessed, b.TotalRows), Replay: replay})
					}
				}
			}
			if fmt.Sprint(got) != fmt.Sprint(wantStats) {
				c.r.Add(Finding{Kind: "disagreement", Check: "stats-vs-plan", Detail: "BlockStats differ from the Lean read plan (offset -> S skipped / P processed)", Replay: map[string]any{"query": q, "impl": fmt.Sprint(got), "model": fmt.Sprint(wantStats), "ops": h.Ops}})
			}
			// the accounting model (Model/Stats): entries and totals of every file the plan does not prune as a whole
			perBlock := map[string]int{}
			for _, row := range out.rows {
				if f, ok := row["_id"].(float64); ok {
					perBlock[blockOf[int(f)]]++
				}
			}
			for fi, f := range layout {
				pf := strings.Fields(plans[fi])
				if pf[2] == "0" {
					continue
				}
				qt := (&toks{}).add("qstats").add(b2s(hasBloom)).n(len(f.Blocks))
				for _, b := range f.Blocks {
					k := fmt.Sprint(f.Ptr, "@", b.Meta.RowDataOffset)
					pre := "0"
					if _, owed := wantStats[k]; owed {
						pre = "1"
					}
					fl := true
					if b.Filters != nil {
						fl = filtersAdmit(b.Filters, prune)
					}
					qt.n(b.Meta.RowDataOffset).n(b.Meta.Rows).add(pre).add(b2s(fl)).n(b.Meta.BloomFilterSize).n(b.Meta.UncompressedSize).n(perBlock[k])
				}
				resp := strings.SplitN(c.m.Ask(qt.String()), " | ", 2)
				var gotE []string
				var rs, bsum int64
				np, ns := 0, 0
				for _, b := range st.BlockStats {
					if string(b.FilePointer) != f.Ptr {
						continue
					}
					tag := "P"
					if b.BloomFilterSkipped {
						tag = "S"
						ns++
					} else {
						np++
					}
					rs += b.RowsProcessed
					bsum += b.BytesProcessed
					gotE = append(gotE, fmt.Sprintf("%d %s %d %d", b.BlockOffset, tag, b.RowsProcessed, b.BytesProcessed))
				}
				sort.Strings(gotE)
				mf := strings.Fields(resp[0])
				var wantE []string
				for i := 1; i+3 < len(mf); i += 4 {
					wantE = append(wantE, strings.Join(mf[i:i+4], " "))
				}
				sort.Strings(wantE)
				c.r.Hit("c23.accounting-compared")
				gotT := fmt.Sprintf("%d %d %d %d %d", rs, bsum, np, ns, func() int {
					n := 0
					for k, v := range perBlock {
						if strings.HasPrefix(k, f.Ptr+"@") {
							n += v
						}
					}
					return n
				}())
				if fmt.Sprint(gotE) != fmt.Sprint(wantE) || (len(resp) > 1 && gotT != resp[1]) {
					c.r.Add(Finding{Kind: "disagreement", Check: "stats-accounting", Detail: fmt.Sprintf("clean completion: the entries / sums of file %s differ from the Lean accounting model (offset S|P rows bytes; rowsScanned bytesScanned processed skipped rowsMatched)", f.Ptr),
						Replay: map[string]any{"query": q, "impl_entries": gotE, "model_entries": wantE, "impl_sums": gotT, "model_sums": resp[len(resp)-1], "ops": h.Ops}})
				}
			}
			if st.RowsMatched != int64(len(out.rows)) {
				c.r.Add(Finding{Kind: "violation", Check: "rows-matched", Detail: fmt.Sprintf("RowsMatched=%d but %d rows were returned on clean completion", st.RowsMatched, len(out.rows)), Replay: replay})
			}
		}
	}
	if which == "C24" && !out.faultHit && !out.iterHit {
		opened := map[string]bool{}
		for _, cl := range h.Env.Data.Log() {
			if cl.Op == "open" {
				opened[cl.File] = true
			}
		}
		for f := range opened {
			if !wantOpen[f] {
				c.r.Add(Finding{Kind: "violation", Check: "opened-pruned-file", Detail: fmt.Sprintf("file %s was opened although the plan rules it out (file-level filters / no surviving block)", f), Replay: replay})
			}
		}
		byFile := map[string]FileObs{}
		for _, f := range layout {
			byFile[f.Ptr] = f
		}
		for _, ex := range h.Env.Data.Extents() {
			if ex.Len == 0 {
				continue
			}
			f := byFile[ex.File]
			ok := false
			rs, re := f.Meta.BlockFilterRegionOffset, f.Meta.BlockFilterRegionOffset+f.Meta.BlockFilterRegionSize
			if ex.Off >= rs && ex.Off+ex.Len <= re {
				if !wantRegion[ex.File] {
					c.r.Add(Finding{Kind: "violation", Check: "region-read-unneeded", Detail: fmt.Sprintf("block filter region of %s read [%d,+%d) although the query has no bloom/regex conditions or no candidate block has a section", ex.File, ex.Off, ex.Len), Replay: replay})
				}
				ok = true
			}
			for _, b := range f.Blocks {
				if ex.Off >= b.Meta.RowDataOffset && ex.Off+ex.Len <= b.Meta.RowDataOffset+b.Meta.RowDataSize && b.Meta.RowDataSize > 0 {
					ok = true
					if wantStats[fmt.Sprint(ex.File, "@", b.Meta.RowDataOffset)] != "P" {
						c.r.Add(Finding{Kind: "violation", Check: "row-data-read-of-pruned-block", Detail: fmt.Sprintf("row data of block %s@%d read although its prefilter or its filters rule it out", ex.File, b.Meta.RowDataOffset), Replay: replay})
					}
				}
			}
			if !ok {
				c.r.Add(Finding{Kind: "violation", Check: "read-outside-extents", Detail: fmt.Sprintf("read [%d,+%d) of %s lies in no declared row-data extent and not in the filter region", ex.Off, ex.Len, ex.File), Replay: replay})
			}
		}
		c.r.Hit("c24.plans-compared")
	}
	_ = sort.Strings
}

// ---------------------------------------------------------------- C21 pool T-diff

type dummyHandleStore struct {
	*MemStore
}

func poolDiff(c *ctx, r Rng, h *History) {
	files, _ := AllFiles(h.Env.Meta)
	if len(files) == 0 {
		return
	}
	for i := 0; i < 150; i++ {
		pool := bs.VerifNewHandlePool(h.Env.Data)
		nops := 5 + r.IntN(25)
		ptrs := files[:min(len(files), 3)]
		type lent struct {
			ptr int
			h   interface{ Close() error }
			rd  any
			id  int
		}
		var held []lent
		handleID := map[any]int{}
		next := 0
		var mt toks
		var got []string
		n := 0
		refs := map[int]int{}
		closed := false
		for k := 0; k < nops; k++ {
			switch op := r.Pick(12); {
			case op < 3:
				p := r.IntN(len(ptrs))
				pool.Retain(ptrs[p].PointerBytes)
				mt.add("retain").n(p)
				got = append(got, "-")
				refs[p]++
			case op < 5:
				p := r.IntN(len(ptrs))
				pool.Release(ptrs[p].PointerBytes)
				mt.add("release").n(p)
				got = append(got, "-")
			case op < 9:
				p := r.IntN(len(ptrs))
				hd, err := pool.Acquire(context.Background(), ptrs[p].PointerBytes)
				mt.add("acquire").n(p)
				if err != nil {
					got = append(got, "-")
				} else {
					id, ok := handleID[hd]
					if !ok {
						id = next
						next++
						handleID[hd] = id
					}
					held = append(held, lent{ptr: p, h: hd, rd: hd, id: id})
					got = append(got, fmt.Sprint(id))
				}
			case op < 11:
				if len(held) == 0 {
					continue
				}
				j := r.IntN(len(held))
				l := held[j]
				held = append(held[:j], held[j+1:]...)
				if r.Chance(0.75) {
					pool.Put(ptrs[l.ptr].PointerBytes, l.rd.(interface {
						Read([]byte) (int, error)
						Seek(int64, int) (int64, error)
						Close() error
					}))
					mt.add("put").n(l.ptr).n(l.id)
				} else {
					pool.Discard(l.rd.(interface {
						Read([]byte) (int, error)
						Seek(int64, int) (int64, error)
						Close() error
					}))
					mt.add("discard").n(l.id)
				}
				got = append(got, "-")
			default:
				if closed {
					continue
				}
				pool.CloseAll()
				closed = true
				mt.add("closeall")
				got = append(got, "-")
			}
			n++
		}
		// hand everything back, then tear down
		for _, l := range held {
			pool.Discard(l.rd.(interface {
				Read([]byte) (int, error)
				Seek(int64, int) (int64, error)
				Close() error
			}))
			mt.add("discard").n(l.id)
			got = append(got, "-")
			n++
		}
		pool.CloseAll()
		mt.add("closeall")
		got = append(got, "-")
		n++
		resp := c.m.Ask(fmt.Sprintf("pool %d %s", n, mt.String()))
		parts := strings.SplitN(resp, " | ", 2)
		c.r.Case(next > 0, "pool "+mt.String())
		if parts[0] != strings.Join(got, " ") {
			c.r.Add(Finding{Kind: "disagreement", Check: "pool-model", Detail: "handles lent by the real pool differ from the Lean pool model", Replay: map[string]any{"ops": mt.String(), "impl": strings.Join(got, " "), "model": parts[0]}})
		}
		if len(parts) > 1 {
			for _, st := range strings.Fields(parts[1]) {
				if st != "closed1" {
					c.r.Add(Finding{Kind: "disagreement", Check: "pool-model", Detail: "Lean pool model: a handle is not closed exactly once after teardown: " + parts[1], Replay: map[string]any{"ops": mt.String()}})
					break
				}
			}
		}
		if n := h.Env.Data.OpenHandles(); n != 0 {
			c.r.Add(Finding{Kind: "violation", Check: "pool-handles-left-open", Detail: fmt.Sprintf("%d handles still open after every reader handed back and closeAll ran", n), Replay: map[string]any{"ops": mt.String()}})
			for h.Env.Data.OpenHandles() > 0 { // reset gauge for the next sequence
				h.Env.Data.openHandles.Add(-1)
			}
		}
		if m := h.Env.Data.Misuses(); len(m) > 0 {
			c.r.Add(Finding{Kind: "violation", Check: "pool-misuse", Detail: "double close / use after close inside the pool: " + m[0], Replay: map[string]any{"ops": mt.String()}})
			h.Env.Data.ResetLog()
		}
	}
}

// poolManyHandles: directed sequences for the handle pool - many handles of ONE file lent at once and all
// handed back healthy (9, 12, 40: beyond any small idle cap), with and without read handles whose Close
// reports an error after releasing; then whole queries over such a store. Every handle opened must be closed
// exactly once by the time closeAll / the query returns.
func poolManyHandles(c *ctx, h *History) {
	files, _ := AllFiles(h.Env.Meta)
	if len(files) == 0 {
		return
	}
	type rsc = interface {
		Read([]byte) (int, error)
		Seek(int64, int) (int64, error)
		Close() error
	}
	defer func() { h.Env.Data.CloseErrEvery = 0 }()
	for _, closeErr := range []int64{0, 2, 1} {
		for _, k := range []int{9, 12, 40} {
			h.Env.Data.CloseErrEvery = closeErr
			h.Env.Data.ResetLog()
			pool := bs.VerifNewHandlePool(h.Env.Data)
			ptr := files[0].PointerBytes
			pool.Retain(ptr)
			var held []rsc
			for i := 0; i < k; i++ {
				hd, err := pool.Acquire(context.Background(), ptr)
				if err != nil {
					break
				}
				held = append(held, hd.(rsc))
			}
			opened := h.Env.Data.OpenHandles()
			for _, hd := range held {
				pool.Put(ptr, hd)
			}
			pool.Release(ptr)
			pool.CloseAll()
			replay := map[string]any{"handles_of_one_file_lent_at_once": k, "every_nth_close_reports_error": closeErr, "opened": opened}
			c.r.Case(true, fmt.Sprint("pool-many", k, closeErr))
			c.r.Hit("pool.many-handles")
			if n := h.Env.Data.OpenHandles(); n != 0 {
				c.r.Add(Finding{Kind: "violation", Check: "pool-handles-left-open", Detail: fmt.Sprintf("%d of %d handles of one file are still open after all were handed back, the file was released and closeAll ran (every %d-th Close reports an error)", n, opened, closeErr), Replay: replay})
				for h.Env.Data.OpenHandles() > 0 {
					h.Env.Data.openHandles.Add(-1)
				}
			}
			if m := h.Env.Data.Misuses(); len(m) > 0 {
				c.r.Add(Finding{Kind: "violation", Check: "pool-misuse", Detail: "double close / use after close inside the pool: " + m[0], Replay: replay})
				h.Env.Data.ResetLog()
			}
		}
	}
	// whole queries over a store whose handles report errors from Close
	for _, closeErr := range []int64{1, 2, 3} {
		h.Env.Data.CloseErrEvery = closeErr
		h.Env.Data.ResetLog()
		out := h.Env.Query(&bs.Query{})
		c.r.Case(true, fmt.Sprint("query-close-errors", closeErr))
		c.r.Hit("pool.query-close-errors")
		if n := h.Env.Data.OpenHandles(); n != 0 {
			c.r.Add(Finding{Kind: "violation", Check: "handles-left-open", Detail: fmt.Sprintf("%d DataStore handles are still open after the query's Next returned false (every %d-th Close reports an error after releasing; query err %v)", n, closeErr, out.Err), Replay: map[string]any{"ops": h.Ops, "every_nth_close_reports_error": closeErr}})
			for h.Env.Data.OpenHandles() > 0 {
				h.Env.Data.openHandles.Add(-1)
			}
		}
	}
}

// ---------------------------------------------------------------- C22

func concurrencyRuns(c *ctx, r Rng, h *History, p *pools) {
	for _, capN := range []int{1, 2, 3} {
		cfg := h.Env.Cfg
		cfg.MaxQueryConcurrency = capN
		eng, err := bs.NewBloomSearchEngine(cfg, h.Env.Meta, h.Env.Data)
		if err != nil {
			fatal("engine: %v", err)
		}
		h.Env.Data.ReadDelay = 300 * time.Microsecond
		h.Env.Data.ResetReadGauge()
		nq := 2 + r.IntN(5)
		var wg sync.WaitGroup
		stalledDone := make(chan struct{})
		others := make(chan time.Duration, nq)
		// one query whose consumer stops reading after the first row
		stallCtx, stallCancel := context.WithCancel(context.Background())
		go func() {
			defer close(stalledDone)
			res, err := eng.Query(stallCtx, &bs.Query{})
			if err != nil {
				return
			}
			res.Next()
			<-stallCtx.Done() // consumer stalled until released
			res.Close()
		}()
		time.Sleep(5 * time.Millisecond)
		for q := 0; q < nq; q++ {
			wg.Add(1)
			query := genQuery(r, p, false)
			go func() {
				defer wg.Done()
				start := time.Now()
				RunQuery(eng, query)
				others <- time.Since(start)
			}()
		}
		finished := make(chan struct{})
		go func() { wg.Wait(); close(finished) }()
		select {
		case <-finished:
		case <-time.After(20 * time.Second):
			c.r.Add(Finding{Kind: "violation", Check: "stalled-query-starves-others", Detail: fmt.Sprintf("with MaxQueryConcurrency=%d and one stalled consumer, %d other queries did not complete within 20s", capN, nq), Replay: map[string]any{"cap": capN}})
		}
		stallCancel()
		<-stalledDone
		h.Env.Data.ReadDelay = 0
		maxR := h.Env.Data.MaxConcurrentReads()
		c.r.Case(true, fmt.Sprint("conc", capN, nq))
		c.r.Hit(fmt.Sprintf("c22.cap%d.maxreads%d", capN, maxR))
		if int(maxR) > capN {
			c.r.Add(Finding{Kind: "violation", Check: "reads-exceed-cap", Detail: fmt.Sprintf("%d DataStore reads were in progress at once; MaxQueryConcurrency=%d", maxR, capN), Replay: map[string]any{"cap": capN, "queries": nq + 1}})
		}
		if eng.VerifSemaphoreInUse() != 0 {
			c.r.Add(Finding{Kind: "violation", Check: "semaphore-not-restored", Detail: "query semaphore not fully released after all queries ended", Replay: map[string]any{"cap": capN}})
		}
	}
}

// parseBloomExprToks reads the "E <type> N|S <kind> <field> <token> <n> children…" encoding back.
func parseBloomExprToks(f []string, pos *int) bs.BloomExpression {
	var e bs.BloomExpression
	*pos++ // "E"
	e.ExpressionType = bs.BloomExpressionType(unhx(f[*pos]))
	*pos++
	if f[*pos] == "S" {
		e.Condition = &bs.BloomCondition{Type: bs.BloomConditionType(unhx(f[*pos+1])), Field: unhx(f[*pos+2]), Token: unhx(f[*pos+3])}
		*pos += 4
	} else {
		*pos++
	}
	n, _ := strconv.Atoi(f[*pos])
	*pos++
	for i := 0; i < n; i++ {
		e.Children = append(e.Children, parseBloomExprToks(f, pos))
	}
	return e
}

// filtersAdmit is the harness's own evaluation of a prune query against a set of bloom filters, following the
// Lean `evalFilt` / `filtCond`: each condition consults only the filter of its own kind, an absent filter of
// that kind cannot rule anything out, OR is any (empty OR false), AND is all, a CONDITION node without a
// condition is true, an unknown node type is false. Only the membership tests are the bloom library's.
func filtersAdmit(f *bs.BloomFilters, q *bs.BloomQuery) bool {
	if q == nil || q.Expression == nil {
		return true
	}
	if f == nil {
		f = &bs.BloomFilters{}
	}
	test := func(fl *bloom.BloomFilter, s string) bool { return fl == nil || fl.TestString(s) }
	var ev func(e *bs.BloomExpression) bool
	ev = func(e *bs.BloomExpression) bool {
		switch e.ExpressionType {
		case bs.BloomExpressionCondition:
			if e.Condition == nil {
				return true
			}
			switch e.Condition.Type {
			case bs.BloomField:
				return test(f.FieldBloomFilter, e.Condition.Field)
			case bs.BloomToken:
				return test(f.TokenBloomFilter, e.Condition.Token)
			case bs.BloomFieldToken:
				return test(f.FieldTokenBloomFilter, e.Condition.Field+"::"+e.Condition.Token)
			}
			return false
		case bs.BloomExpressionOr:
			for i := range e.Children {
				if ev(&e.Children[i]) {
					return true
				}
			}
			return false
		case bs.BloomExpressionAnd:
			for i := range e.Children {
				if !ev(&e.Children[i]) {
					return false
				}
			}
			return true
		}
		return false
	}
	return ev(q.Expression)
}
