package main

// C27: run histories that exercise ingest, flush, query, merge and Stop — including store failures,
// corrupt files, files without filters and Stop deadlines — with no logger configured, while file
// descriptors 1 and 2 of the process are redirected to a capture file. Anything captured is output.

import (
	"context"
	"fmt"
	"os"
	"path/filepath"
	"strings"
	"syscall"
	"time"

	bs "github.com/danthegoodman1/bloomsearch"
)

func init() { props["C27"] = runC27 }

type fdCapture struct {
	file           *os.File
	saved1, saved2 int
}

func startCapture() (*fdCapture, error) {
	f, err := os.CreateTemp("", "bscapture")
	if err != nil {
		return nil, err
	}
	s1, err := syscall.Dup(1)
	if err != nil {
		return nil, err
	}
	s2, err := syscall.Dup(2)
	if err != nil {
		return nil, err
	}
	if err := syscall.Dup2(int(f.Fd()), 1); err != nil {
		return nil, err
	}
	if err := syscall.Dup2(int(f.Fd()), 2); err != nil {
		return nil, err
	}
	return &fdCapture{file: f, saved1: s1, saved2: s2}, nil
}

func (c *fdCapture) stop() []byte {
	syscall.Dup2(c.saved1, 1)
	syscall.Dup2(c.saved2, 2)
	syscall.Close(c.saved1)
	syscall.Close(c.saved2)
	data, _ := os.ReadFile(c.file.Name())
	c.file.Close()
	os.Remove(c.file.Name())
	return data
}

func runC27(c *ctx) {
	c.r.Rule = "histories with a nil Logger under fd 1/2 capture: healthy ingest/flush/merge/query, a fault at each of the first store calls of a flush and of a merge, queries over corrupted files and over files without filters, " +
		"Stop with an expired deadline on a wedged store, ingest after Stop, invalid regex; the regenerated sink table (Lean) covers the package's own code, the capture covers dependencies. Non-trivial = a failure path was taken; distinct by scenario"
	r := NewRng(c.seed, 2700)
	n := 10 * c.scale
	for i := 0; i < n; i++ {
		scenario := fmt.Sprintf("history-%d", i)
		capt, err := startCapture()
		if err != nil {
			fatal("capture: %v", err)
		}
		failures := 0
		func() {
			h := NewHistory(r)
			h.Run(r, 8, c.r)
			// fault at a store call of a flush and of a merge
			h.Env.Data.SetFaults([]string{"*"}, 1+r.IntN(12))
			if err := h.Env.IngestWait([]map[string]any{{"_id": 900000 + i, "p": "a"}}); err != nil {
				failures++
			}
			h.Env.Data.ClearFaults()
			h.Env.Data.SetFaults([]string{"*"}, 1+r.IntN(30))
			if _, err := h.Env.Eng.Merge(context.Background()); err != nil {
				failures++
			}
			h.Env.Data.ClearFaults()
			// corrupt every file a little, query, restore
			orig := h.Env.Data.Published()
			for name, data := range orig {
				if len(data) > 10 {
					m, _ := mutate(r, data, data)
					h.Env.Data.Put(name, m)
				}
			}
			for q := 0; q < 4; q++ {
				e := bs.Token("error")
				if out := h.Env.Query(&bs.Query{Bloom: &bs.BloomQuery{Expression: &e}}); out.Err != nil {
					failures++
				}
				h.Env.Query(&bs.Query{})
			}
			for name, data := range orig {
				h.Env.Data.Put(name, data)
			}
			// files without filters (missing-filter warnings) queried with bloom conditions
			h.externalFile(r, c.r)
			e := bs.And(bs.Field("a"), bs.Token("x"), bs.FieldToken("level", "error"))
			h.Env.Query(&bs.Query{Bloom: &bs.BloomQuery{Expression: &e}})
			// invalid regex
			if _, err := h.Env.Eng.Query(context.Background(), bs.NewQuery().FieldRegex("a", "(").Build()); err != nil {
				failures++
			}
			// Stop with an expired deadline on a wedged store, then ingest after Stop
			g := newGate(func(op, file string) bool { return op == "create" })
			h.Env.Data.Gate = g.hook
			done := make(chan error, 1)
			h.Env.Eng.IngestRows(context.Background(), []map[string]any{{"_id": 1}}, done)
			go h.Env.Eng.Flush(context.Background())
			g.waitBlocked(200 * time.Millisecond)
			ctx, cancel := context.WithTimeout(context.Background(), 20*time.Millisecond)
			if err := h.Env.Eng.Stop(ctx); err != nil {
				failures++
			}
			cancel()
			g.release()
			time.Sleep(30 * time.Millisecond)
			if err := h.Env.Eng.IngestRows(context.Background(), []map[string]any{{"late": 1}}, nil); err != nil {
				failures++
			}
		}()
		out := capt.stop()
		c.r.Case(failures > 0, scenario)
		c.r.Hit(fmt.Sprintf("c27.failure-paths.%d", min(failures, 6)))
		if i < 2 {
			c.r.Sample(map[string]any{"scenario": scenario, "failure_paths_taken": failures, "captured_bytes": len(out)})
		}
		if len(out) > 0 {
			c.r.Add(Finding{Kind: "violation", Check: "output-captured", Detail: fmt.Sprintf("%d bytes were written to stdout/stderr with no logger configured: %q", len(out), trunc(string(out), 300)), Replay: map[string]any{"scenario": scenario, "seed": c.seed}})
		}
	}
	c27FileSystem(c, r)
}

// c27FileSystem: the filesystem store as DataStore and MetaStore over a directory that also holds damaged
// files of every kind the scan has to skip (bit rot inside the footer metadata, truncation, a foreign file,
// an empty reservation, a leftover temp file), plus failed flushes and a merge.
func c27FileSystem(c *ctx, r Rng) {
	for i := 0; i < 3*c.scale; i++ {
		scenario := fmt.Sprintf("filesystem-%d", i)
		capt, err := startCapture()
		if err != nil {
			fatal("capture: %v", err)
		}
		failures := 0
		func() {
			dir, err := os.MkdirTemp("", "bs27")
			if err != nil {
				fatal("tempdir: %v", err)
			}
			defer os.RemoveAll(dir)
			fs := bs.NewFileSystemDataStore(dir)
			ffs := &failingFS{FileSystemDataStore: fs}
			cfg := bs.DefaultBloomSearchEngineConfig()
			cfg.PartitionFunc = partitionFunc("p")
			cfg.MaxBufferedTime = time.Hour
			eng, err := bs.NewBloomSearchEngine(cfg, fs, ffs)
			if err != nil {
				fatal("engine: %v", err)
			}
			eng.Start()
			ingest := func(id int, failAt int) {
				ffs.failAt = failAt
				done := make(chan error, 1)
				eng.IngestRows(context.Background(), []map[string]any{{"_id": id, "p": "a", "msg": "hello world"}}, done)
				eng.Flush(context.Background())
				if e := <-done; e != nil {
					failures++
				}
				ffs.failAt = 0
			}
			ingest(1, 0)
			ingest(2, 0)
			ingest(3, 1+r.IntN(6))
			ents, _ := os.ReadDir(dir)
			for _, e := range ents {
				if !strings.HasSuffix(e.Name(), ".dat") {
					continue
				}
				data, _ := os.ReadFile(filepath.Join(dir, e.Name()))
				if len(data) < 40 {
					continue
				}
				// bit rot inside the metadata (CRC mismatch with a well-formed footer)
				rot := append([]byte(nil), data...)
				rot[len(rot)-30-r.IntN(40)] ^= 0x10
				os.WriteFile(filepath.Join(dir, "rot-"+e.Name()), rot, 0o600)
				os.WriteFile(filepath.Join(dir, "cut-"+e.Name()), data[:len(data)/2], 0o600)
				break
			}
			os.WriteFile(filepath.Join(dir, "foreign.dat"), []byte("not a bloom file at all, just text that is long enough to have a footer"), 0o600)
			os.WriteFile(filepath.Join(dir, "empty.dat"), nil, 0o600)
			os.WriteFile(filepath.Join(dir, "left.tmp"), []byte("partial"), 0o600)
			failures++
			for _, q := range []*bs.Query{{}, bs.NewQuery().Token("hello").Build(), bs.NewQuery().FieldRegex("msg", "wor").Build()} {
				if out := RunQuery(eng, q); out.Err != nil {
					failures++
				}
			}
			if _, err := eng.Merge(context.Background()); err != nil {
				failures++
			}
			RunQuery(eng, &bs.Query{})
			ctx, cancel := context.WithTimeout(context.Background(), 5*time.Second)
			eng.Stop(ctx)
			cancel()
		}()
		out := capt.stop()
		c.r.Case(failures > 0, scenario)
		c.r.Hit("c27.filesystem")
		if len(out) > 0 {
			c.r.Add(Finding{Kind: "violation", Check: "output-captured", Detail: fmt.Sprintf("%d bytes were written to stdout/stderr with no logger configured (filesystem store over a directory with damaged files): %q", len(out), trunc(string(out), 300)), Replay: map[string]any{"scenario": scenario, "seed": c.seed}})
		}
	}
}
