package main

// Random ingest/flush/merge histories over the real engine, and read-back of the resulting
// layout through the public format helpers. Shared by the content-level properties.

import (
	"bytes"
	"context"
	"encoding/binary"
	"encoding/json"
	"fmt"
	"github.com/bits-and-blooms/bloom/v3"
	"github.com/klauspost/compress/snappy"
	"github.com/klauspost/compress/zstd"
	"hash/crc32"
	"io"
	"sort"
	"strings"

	bs "github.com/danthegoodman1/bloomsearch"
)

type StoredRow struct {
	ID    int
	Go    map[string]any
	Bytes []byte
	PID   string
	Vals  map[string]NumCase // indexed numeric values (configured keys only)
}

type BlockObs struct {
	File    string
	Meta    bs.DataBlockMetadata
	RowIDs  []int
	Rows    [][]byte
	Filters *bs.BloomFilters
}

type FileObs struct {
	Ptr    string
	Meta   bs.FileMetadata
	Blocks []BlockObs
	Bytes  []byte
}

type History struct {
	RateSeen       map[float64]bool            // every BloomFalsePositiveRate an engine of this history was configured with
	ExtCompression bs.CompressionType          // compression the next external file is written with ("" = none)
	CompSeen       map[bs.CompressionType]bool // every compression an engine of this history was configured with
	PadBytes       int                         // when > 0 every generated row gets a compressible filler of up to this many bytes
	Env            *Env
	TM             tokMode
	PartMode       string
	Keys           []string
	Rows           map[int]*StoredRow // acknowledged rows
	Order          []int
	Ops            []string
	nextID         int
	Ext            map[int]bool // rows written by the external writer
	ExtFileFilters func() int   // when set: presence mask (1 field, 2 token, 4 field::token; 0 none) of the file-level filters the next external file carries
}

// allExternal reports whether every row id belongs to an externally written file.
func (h *History) allExternal(ids []int) bool {
	if len(ids) == 0 {
		return false
	}
	for _, id := range ids {
		if !h.Ext[id] {
			return false
		}
	}
	return true
}

func partitionFunc(mode string) bs.PartitionFunc {
	switch mode {
	case "p":
		return func(row map[string]any) string { s, _ := row["p"].(string); return s }
	case "level":
		return func(row map[string]any) string {
			if s, ok := row["level"].(string); ok {
				return "L" + s
			}
			return "Lnone"
		}
	}
	return nil
}

func genHistConfig(r Rng) (bs.BloomSearchEngineConfig, tokMode, string, []string) {
	cfg := bs.DefaultBloomSearchEngineConfig()
	tm := tokModes[0]
	if r.Chance(0.45) {
		tm = pick(r, tokModes)
	}
	cfg.Tokenizer = tm.fn
	pm := pick(r, []string{"", "p", "p", "level"})
	cfg.PartitionFunc = partitionFunc(pm)
	keys := pick(r, [][]string{nil, {"k1"}, {"k1", "k2"}, {"k2", "k1", "missing"}})
	cfg.MinMaxIndexes = keys
	cfg.MaxBufferedRows = 2 + r.IntN(12)
	cfg.MaxRowGroupRows = 1 + r.IntN(8)
	if r.Chance(0.3) {
		cfg.MaxRowGroupBytes = 64 + r.IntN(400)
	}
	if r.Chance(0.3) {
		cfg.MaxBufferedBytes = 100 + r.IntN(2000)
	}
	cfg.RowDataCompression = pick(r, []bs.CompressionType{bs.CompressionNone, bs.CompressionSnappy, bs.CompressionZstd, ""})
	cfg.ZstdCompressionLevel = 1 + r.IntN(4) // levels 5..22 pass config validation but zstd.EncoderLevel only knows 1..4 (observation in DESIGN.md)
	cfg.BloomFalsePositiveRate = pick(r, []float64{1e-4, 0.001, 0.01, 0.2, 0.9})
	cfg.MaxQueryConcurrency = pick(r, []int{1, 2, 4, 1000})
	cfg.MaxFilesToMergePerOperation = 2 + r.IntN(6)
	if r.Chance(0.35) {
		// merge-friendly: blocks of different files really are combined (not just copied), so merged
		// metadata (minmax ranges, filters, counts) is exercised
		cfg.MaxRowGroupRows = 40 + r.IntN(100)
		cfg.MaxRowGroupBytes = 10 << 20
		cfg.MaxBufferedBytes = 1 << 20
		if len(keys) == 0 {
			keys = []string{"k1"}
			cfg.MinMaxIndexes = keys
		}
	}
	// legal extremes: each rarely, so that most histories keep their ordinary shape
	if r.Chance(0.08) {
		cfg.MaxBufferedRows = 1
	}
	if r.Chance(0.08) {
		cfg.IngestBufferSize = 1
	}
	if r.Chance(0.1) {
		cfg.MaxFileSize = 300 + r.IntN(3000)
	}
	if r.Chance(0.08) {
		cfg.BloomFalsePositiveRate = pick(r, []float64{1e-9, 0.999})
	}
	if len(keys) > 0 && r.Chance(0.08) {
		cfg.MinMaxIndexes = append(append([]string(nil), keys...), keys[0]) // a key listed twice
	}
	return cfg, tm, pm, keys
}

func NewHistory(r Rng) *History {
	cfg, tm, pm, keys := genHistConfig(r)
	return &History{Env: NewEnv(cfg), TM: tm, PartMode: pm, Keys: keys, Rows: map[int]*StoredRow{}, CompSeen: map[bs.CompressionType]bool{normComp(cfg.RowDataCompression): true}, RateSeen: map[float64]bool{cfg.BloomFalsePositiveRate: true}}
}

// genHistRow draws a row with partition / minmax fields mixed in.
func (h *History) genHistRow(r Rng) *StoredRow {
	h.nextID++
	row := genRow(r, h.nextID)
	if r.Chance(0.8) {
		row["p"] = pick(r, []string{"", "a", "b", "p1", "p2"})
	}
	if r.Chance(0.6) {
		row["level"] = pick(r, []string{"error", "warn", "info"})
	}
	for _, k := range []string{"k1", "k2"} {
		if r.Chance(0.7) {
			nc := genNum(r)
			for nc.Kind == "map" || nc.Kind == "slice" || (nc.Tok == "" && nc.Kind != "string" && nc.Kind != "bool" && nc.Kind != "nil") || nc.Tok == "pinf" || nc.Tok == "ninf" {
				nc = genNum(r)
			}
			row[k] = nc.Go
		}
	}
	if r.Chance(0.25) {
		// the same value under a second (and third) field: one token, several field::token entries
		for k, v := range row {
			if sv, ok := v.(string); ok && sv != "" && k != "p" {
				row["alt"] = sv
				if r.Chance(0.5) {
					row["n2"] = map[string]any{"again": sv}
				}
				break
			}
		}
	}
	if h.PadBytes > 0 {
		// a compressible filler: makes the compressed and uncompressed block sizes differ a lot
		row["zpad"] = strings.Repeat("q", r.IntN(h.PadBytes))
	}
	sr := &StoredRow{ID: h.nextID, Go: row, Vals: map[string]NumCase{}}
	if pf := h.Env.Cfg.PartitionFunc; pf != nil {
		sr.PID = pf(row)
	}
	for _, k := range h.Keys {
		if v, ok := row[k]; ok {
			nc := classifyNum(v)
			if nc.Tok != "" {
				sr.Vals[k] = nc
			}
		}
	}
	b, ok := mustMarshal(row)
	if !ok {
		return nil
	}
	sr.Bytes = b
	return sr
}

// classifyNum recovers the exact value of a Go numeric (for values placed into rows).
func classifyNum(v any) NumCase {
	var t toks
	_ = t
	switch x := v.(type) {
	case int, int8, int16, int32, int64, uint, uint8, uint16, uint32, uint64:
		return NumCase{Go: v, Kind: fmt.Sprintf("%T", v), Tok: "int " + fmt.Sprint(x)}
	case float32:
		return NumCase{Go: v, Kind: "float32", Tok: floatTok(float64(x))}
	case float64:
		return NumCase{Go: v, Kind: "float64", Tok: floatTok(x)}
	case myF32:
		return NumCase{Go: v, Kind: "myF32", Tok: floatTok(float64(x)), Named: true}
	case myF64:
		return NumCase{Go: v, Kind: "myF64", Tok: floatTok(float64(x)), Named: true}
	case myInt, myInt8, myUint, myUint16:
		return NumCase{Go: v, Kind: fmt.Sprintf("%T", v), Tok: "int " + fmt.Sprint(x), Named: true}
	default:
		if d, ok := v.(interface{ Nanoseconds() int64 }); ok {
			return NumCase{Go: v, Kind: "time.Duration", Tok: "int " + fmt.Sprint(d.Nanoseconds()), Named: true}
		}
	}
	return NumCase{Go: v, Kind: fmt.Sprintf("%T", v)}
}

// Run performs n random operations.
func (h *History) Run(r Rng, n int, rep *Report) {
	for i := 0; i < n; i++ {
		switch k := r.Pick(10); {
		case k < 6:
			bn := 1 + r.IntN(5)
			var batch []map[string]any
			var srs []*StoredRow
			for j := 0; j < bn; j++ {
				if sr := h.genHistRow(r); sr != nil {
					batch = append(batch, sr.Go)
					srs = append(srs, sr)
				}
			}
			err := h.Env.IngestWait(batch)
			h.Ops = append(h.Ops, fmt.Sprintf("ingest %d rows -> %v", len(batch), err))
			if err != nil {
				rep.Add(Finding{Kind: "disagreement", Check: "history-ingest", Detail: "healthy ingest failed: " + err.Error(), Replay: h.Ops})
				continue
			}
			for _, sr := range srs {
				h.Rows[sr.ID] = sr
				h.Order = append(h.Order, sr.ID)
			}
		case k < 8:
			st, err, pv := safeMerge(h.Env.Eng)
			h.Ops = append(h.Ops, fmt.Sprintf("merge -> %v %v", st != nil, err))
			if pv != nil {
				rep.Add(Finding{Kind: "violation", Check: "merge-panics", Detail: fmt.Sprintf("Merge over a healthy store with legally written files panicked: %v", pv), Replay: h.Ops})
				err = nil
			}
			if err != nil {
				rep.Add(Finding{Kind: "disagreement", Check: "history-merge", Detail: "healthy merge failed: " + err.Error(), Replay: h.Ops})
			}
		case k < 9:
			if r.Chance(0.5) {
				// a later engine over the same stores may be configured differently: blocks written before
				// keep their own compression, whatever merges copy or rebuild them
				h.Env.Cfg.RowDataCompression = pick(r, []bs.CompressionType{bs.CompressionNone, bs.CompressionSnappy, bs.CompressionZstd})
			}
			if h.CompSeen != nil {
				h.CompSeen[normComp(h.Env.Cfg.RowDataCompression)] = true
			}
			if h.RateSeen != nil && r.Chance(0.4) {
				// … or with another false-positive rate: what is written from now on is sized for the new rate
				h.Env.Cfg.BloomFalsePositiveRate = pick(r, []float64{1e-4, 0.001, 0.01, 0.2, 0.9})
				h.RateSeen[h.Env.Cfg.BloomFalsePositiveRate] = true
			}
			h.Env.Reopen()
			h.Ops = append(h.Ops, fmt.Sprintf("reopen compression=%s fp-rate=%g", h.Env.Cfg.RowDataCompression, h.Env.Cfg.BloomFalsePositiveRate))
		default:
			h.externalFile(r, rep)
		}
	}
}

// externalFile writes a file the way an external writer would: through WriteFileFooter only,
// uncompressed row data, no block filter sections, no file-level filters.
func (h *History) externalFile(r Rng, rep *Report) {
	n := 1 + r.IntN(4)
	parts := map[string][]*StoredRow{}
	for i := 0; i < n; i++ {
		if sr := h.genHistRow(r); sr != nil {
			parts[sr.PID] = append(parts[sr.PID], sr)
		}
	}
	h.ExtCompression = pick(r, []bs.CompressionType{bs.CompressionNone, bs.CompressionNone, bs.CompressionSnappy, bs.CompressionZstd})
	if h.CompSeen != nil {
		h.CompSeen[normComp(h.ExtCompression)] = true
	}
	h.writeExternal(parts, func() bool { return r.Chance(0.5) }, rep)
	h.ExtCompression = ""
}

// writeExternal writes the given rows (grouped by partition) as an external-writer file.
func (h *History) writeExternal(parts map[string][]*StoredRow, withHash func() bool, rep *Report) {
	var buf bytes.Buffer
	meta := bs.FileMetadata{BloomFalsePositiveRate: 0.01}
	pids := make([]string, 0, len(parts))
	for p := range parts {
		pids = append(pids, p)
	}
	sort.Strings(pids)
	var all []*StoredRow
	for _, pid := range pids {
		start := buf.Len()
		var block bytes.Buffer
		mm := map[string]bs.MinMaxIndex{}
		for _, sr := range parts[pid] {
			var lp [4]byte
			binary.LittleEndian.PutUint32(lp[:], uint32(len(sr.Bytes)))
			block.Write(lp[:])
			block.Write(sr.Bytes)
			for _, k := range h.Keys {
				if v, ok := sr.Go[k]; ok {
					if lo, hi, ok := bs.ConvertToMinMaxInt64(v); ok {
						if e, ok := mm[k]; ok {
							mm[k] = bs.UpdateMinMaxIndex(e, lo, hi)
						} else {
							mm[k] = bs.MinMaxIndex{Min: lo, Max: hi}
						}
					}
				}
			}
			all = append(all, sr)
		}
		stored := block.Bytes()
		comp := bs.CompressionNone
		switch h.ExtCompression {
		case bs.CompressionSnappy:
			var cb bytes.Buffer
			w := snappy.NewBufferedWriter(&cb)
			w.Write(block.Bytes())
			w.Close()
			stored, comp = cb.Bytes(), bs.CompressionSnappy
		case bs.CompressionZstd:
			var cb bytes.Buffer
			w, _ := zstd.NewWriter(&cb, zstd.WithEncoderConcurrency(1))
			w.Write(block.Bytes())
			w.Close()
			stored, comp = cb.Bytes(), bs.CompressionZstd
		}
		buf.Write(stored)
		b := bs.DataBlockMetadata{RowDataOffset: start, RowDataSize: len(stored), Rows: len(parts[pid]), PartitionID: pid, MinMaxIndexes: mm,
			Compression: comp, UncompressedSize: block.Len()}
		if withHash() {
			b.RowDataHash = crc32.Checksum(stored, crc32.MakeTable(crc32.Castagnoli))
			b.HasRowDataHash = true
		}
		meta.DataBlocks = append(meta.DataBlocks, b)
	}
	meta.BlockFilterRegionOffset = buf.Len()
	meta.BlockFilterRegionSize = 0
	if h.ExtFileFilters != nil {
		// an external writer may hand WriteFileFooter any subset of the three file-level filters (the format's
		// presence flags; an absent filter rules nothing out): built here from the rows' own entries
		if mask := h.ExtFileFilters(); mask != 0 {
			fields, tokens, fts := map[string]bool{}, map[string]bool{}, map[string]bool{}
			for _, sr := range all {
				f, t, ft := bs.VerifIndexRow(sr.Bytes, h.Env.Cfg.Tokenizer)
				for _, x := range f {
					fields[x] = true
				}
				for _, x := range t {
					tokens[x] = true
				}
				for _, x := range ft {
					fts[x] = true
				}
			}
			mk := func(set map[string]bool) *bloom.BloomFilter {
				fl := bloom.NewWithEstimates(uint(max(len(set), 1)), 0.01)
				for x := range set {
					fl.AddString(x)
				}
				return fl
			}
			if mask&1 != 0 {
				meta.BloomFilters.FieldBloomFilter = mk(fields)
			}
			if mask&2 != 0 {
				meta.BloomFilters.TokenBloomFilter = mk(tokens)
			}
			if mask&4 != 0 {
				meta.BloomFilters.FieldTokenBloomFilter = mk(fts)
			}
			h.Ops = append(h.Ops, fmt.Sprintf("(next external file carries file-level filters, presence mask %03b)", mask))
		}
	}
	if err := bs.WriteFileFooter(&buf, &meta); err != nil {
		rep.Add(Finding{Kind: "disagreement", Check: "external-writer", Detail: err.Error(), Replay: h.Ops})
		return
	}
	name := fmt.Sprintf("ext%04d", h.nextID)
	h.Env.Data.Put(name, buf.Bytes())
	if err := h.Env.Meta.Update(context.Background(), []bs.WriteOperation{{FileMetadata: &meta, FilePointerBytes: []byte(name)}}, nil); err != nil {
		rep.Add(Finding{Kind: "disagreement", Check: "external-writer", Detail: err.Error(), Replay: h.Ops})
		return
	}
	if h.Ext == nil {
		h.Ext = map[int]bool{}
	}
	for _, sr := range all {
		h.Rows[sr.ID] = sr
		h.Order = append(h.Order, sr.ID)
		h.Ext[sr.ID] = true
	}
	h.Ops = append(h.Ops, fmt.Sprintf("external file %s with %d rows", name, len(all)))
}

// Layout reads every referenced file back through the public helpers.
func (h *History) Layout() ([]FileObs, error) {
	files, err := AllFiles(h.Env.Meta)
	if err != nil {
		return nil, err
	}
	sort.Slice(files, func(i, j int) bool { return string(files[i].PointerBytes) < string(files[j].PointerBytes) })
	pub := h.Env.Data.Published()
	var out []FileObs
	for _, f := range files {
		fo := FileObs{Ptr: string(f.PointerBytes), Meta: f.Metadata, Bytes: pub[string(f.PointerBytes)]}
		// every other file is read through a reader that returns few bytes per Read (io.Reader allows it)
		var rd io.ReadSeeker = bytes.NewReader(fo.Bytes)
		if len(fo.Bytes)%2 == 1 {
			rd = &shortReadSeeker{R: bytes.NewReader(fo.Bytes), K: 1 + len(fo.Bytes)%29}
		}
		for _, bm := range f.Metadata.DataBlocks {
			bo := BlockObs{File: fo.Ptr, Meta: bm}
			data, err := bs.ReadDataBlockRowData(rd, &bm)
			if err != nil {
				return nil, fmt.Errorf("file %s block@%d: %w", fo.Ptr, bm.RowDataOffset, err)
			}
			sc := bs.NewBlockRowScanner(data)
			for {
				row, ok, err := sc.Next()
				if err != nil {
					return nil, fmt.Errorf("file %s block@%d scan: %w", fo.Ptr, bm.RowDataOffset, err)
				}
				if !ok {
					break
				}
				bo.Rows = append(bo.Rows, append([]byte(nil), row...))
				var probe struct {
					ID int `json:"_id"`
				}
				json.Unmarshal(row, &probe)
				bo.RowIDs = append(bo.RowIDs, probe.ID)
			}
			fl, err := bs.ReadDataBlockBloomFilters(rd, bm)
			if err != nil {
				return nil, fmt.Errorf("file %s block@%d filters: %w", fo.Ptr, bm.RowDataOffset, err)
			}
			bo.Filters = fl
			fo.Blocks = append(fo.Blocks, bo)
		}
		out = append(out, fo)
	}
	return out, nil
}

// prePartTok encodes a stored row for the model's `rowpre` command.
func (sr *StoredRow) rowPreTok(t *toks, keys []string) {
	t.s(sr.PID)
	var vt toks
	n := 0
	for _, k := range keys {
		if nc, ok := sr.Vals[k]; ok && nc.Tok != "" {
			vt.s(k).add(nc.Tok)
			n++
		}
	}
	t.n(n)
	if n > 0 {
		t.add(vt.String())
	}
}

func idsOf(rows []map[string]any) map[int]int {
	out := map[int]int{}
	for _, row := range rows {
		if f, ok := row["_id"].(float64); ok {
			out[int(f)]++
		}
	}
	return out
}

func normComp(c bs.CompressionType) bs.CompressionType {
	if c == "" {
		return bs.CompressionNone
	}
	return c
}

// shortReadSeeker returns at most K bytes per Read.
type shortReadSeeker struct {
	R *bytes.Reader
	K int
}

func (s *shortReadSeeker) Read(p []byte) (int, error) {
	if len(p) > s.K {
		p = p[:s.K]
	}
	return s.R.Read(p)
}
func (s *shortReadSeeker) Seek(off int64, whence int) (int64, error) { return s.R.Seek(off, whence) }

// safeMerge runs Merge under recover: a panic inside the engine's own call stack is a finding, not the end of the check.
func safeMerge(eng *bs.BloomSearchEngine) (st *bs.MergeStats, err error, pv any) {
	defer func() {
		if r := recover(); r != nil {
			pv = r
		}
	}()
	st, err = eng.Merge(context.Background())
	return st, err, nil
}
