package main

// Trace recording of the real ingest/flush pipeline (verif hook events + harness events),
// normalisation into pipeline-LTS events, and validation against the Lean model.

import (
	"context"
	"errors"
	"fmt"
	"strings"
	"sync"
	"sync/atomic"
	"time"

	bs "github.com/danthegoodman1/bloomsearch"
)

type recEvent struct {
	Kind  string
	Chans []uintptr
	Rows  int
	Force bool
	Err   bool
	At    time.Time
}

type recorder struct {
	mu     sync.Mutex
	events []recEvent
}

func (r *recorder) add(e recEvent) {
	e.At = time.Now()
	r.mu.Lock()
	r.events = append(r.events, e)
	r.mu.Unlock()
}

func (r *recorder) snapshot() []recEvent {
	r.mu.Lock()
	defer r.mu.Unlock()
	return append([]recEvent(nil), r.events...)
}

func (r *recorder) install() {
	bs.VerifSetHook(func(ev bs.VerifEvent) {
		r.add(recEvent{Kind: ev.Kind, Chans: ev.Chans, Rows: ev.Rows, Force: ev.Force, Err: ev.Err != nil})
	})
}

func uninstallHook() { bs.VerifSetHook(nil) }

// batch is one IngestRows / Flush call made by the harness.
type batch struct {
	id          int
	kind        string // rows | empty | bad | force
	nrows       int
	ch          chan error
	addr        uintptr
	chanCap     int
	tCall       time.Time
	tRet        time.Time
	ret         error // what IngestRows returned
	got         []error
	gotAt       []time.Time
	mu          sync.Mutex
	abandon     bool // nobody receives (unbuffered channel)
	returned    bool
	lazy        time.Duration // unbuffered channel whose receiver starts late
	codec       bool          // kind "bad" because the configuration's compression writer cannot be created, not because of a row
	recvStarted bool
}

func (b *batch) values() []error {
	b.mu.Lock()
	defer b.mu.Unlock()
	return append([]error(nil), b.got...)
}

// toModelTrace converts recorded events into pipeline-LTS events (see DESIGN.md section 7.4):
// batch ids are assigned per done-channel address, bad batches are known to the harness, log-order
// races (a completed send logged after the matching receive) are normalised, and Stop's hidden
// deadline machinery is made explicit before the first event that presupposes it.
type traceConv struct {
	kinds       map[uintptr]string // harness-known kind per channel address ("bad" etc.)
	nextID      int
	idOf        map[uintptr]int
	late        map[uintptr]bool // accept synthesised at actor_recv; the late "accepted" is to be skipped
	out         []string
	deadl       bool
	aft         bool
	enqSyn      int // number of synthesised "enqueued" events whose real event is still to come
	pending     bool
	qFull       bool
	cap         int
	takeSyn     int
	idKind      map[int]string
	AcceptOrder []int
}

func newTraceConv() *traceConv {
	return &traceConv{kinds: map[uintptr]string{}, idOf: map[uintptr]int{}, late: map[uintptr]bool{}, idKind: map[int]string{}}
}

func (tc *traceConv) accept(addr uintptr, rows int, force bool) int {
	tc.nextID++
	id := tc.nextID
	tc.idOf[addr] = id
	k := "rows"
	switch {
	case force:
		k = "force"
	case tc.kinds[addr] == "bad":
		k = "bad"
	case rows == 0:
		k = "empty"
	}
	tc.idKind[id] = k
	tc.AcceptOrder = append(tc.AcceptOrder, id)
	if k == "rows" {
		tc.out = append(tc.out, fmt.Sprintf("accept %d rows %d", id, rows))
	} else {
		tc.out = append(tc.out, fmt.Sprintf("accept %d %s", id, k))
	}
	return id
}

func (tc *traceConv) needCancel() {
	if !tc.deadl {
		tc.out = append(tc.out, "deadline")
		tc.deadl = true
	}
	if !tc.aft {
		tc.out = append(tc.out, "afterfunc")
		tc.aft = true
	}
}

// instance numbering: the k-th batch seen on a channel address (addresses of harness-held channels
// are unique; Flush's internal channels may be reused after the call returned).
type inst struct {
	addr uintptr
	n    int
}

func (tc *traceConv) convert(events []recEvent) []string {
	// ---- pass 1: the order in which the actor received batches is the order they entered ingestChan
	accN, recvN := map[uintptr]int{}, map[uintptr]int{}
	info := map[inst]recEvent{}
	var logOrder, recvOrder []inst
	seenRecv := map[inst]bool{}
	for _, e := range events {
		if len(e.Chans) == 0 {
			continue
		}
		addr := e.Chans[0]
		switch e.Kind {
		case "accepted":
			accN[addr]++
			k := inst{addr, accN[addr]}
			info[k] = e
			logOrder = append(logOrder, k)
		case "actor_recv":
			recvN[addr]++
			k := inst{addr, recvN[addr]}
			if _, ok := info[k]; !ok {
				info[k] = e
			}
			recvOrder = append(recvOrder, k)
			seenRecv[k] = true
		}
	}
	order := append([]inst(nil), recvOrder...)
	for _, k := range logOrder {
		if !seenRecv[k] {
			order = append(order, k) // never received by the actor: keep log order
		}
	}
	pos := map[inst]int{}
	for i, k := range order {
		pos[k] = i
	}
	// ---- pass 2
	emitted := 0 // accepts emitted = order[:emitted]
	var queue []inst
	earlyRecv := map[inst]bool{}
	idOfInst := map[inst]int{}
	emitRecv := func(k inst) {
		tc.out = append(tc.out, fmt.Sprintf("recv %d", idOfInst[k]))
		if len(queue) > 0 && queue[0] == k {
			queue = queue[1:]
		}
	}
	emitAcceptsThrough := func(k inst) {
		for emitted <= pos[k] {
			x := order[emitted]
			if tc.cap > 0 && len(queue) >= tc.cap {
				// the channel had room for this send, so the actor has already received the head; its
				// actor_recv is logged later (a receive is logged after it happened)
				h := queue[0]
				earlyRecv[h] = true
				emitRecv(h)
			}
			e := info[x]
			idOfInst[x] = tc.accept(x.addr, e.Rows, e.Force)
			queue = append(queue, x)
			emitted++
		}
	}
	accN, recvN = map[uintptr]int{}, map[uintptr]int{}
	drained := false
	for _, e := range events {
		var addr uintptr
		if len(e.Chans) > 0 {
			addr = e.Chans[0]
		}
		switch e.Kind {
		case "start":
			tc.out = append(tc.out, "start")
		case "accepted":
			accN[addr]++
			emitAcceptsThrough(inst{addr, accN[addr]})
		case "actor_recv":
			recvN[addr]++
			k := inst{addr, recvN[addr]}
			emitAcceptsThrough(k)
			if earlyRecv[k] {
				delete(earlyRecv, k)
				continue
			}
			emitRecv(k)
		case "actor_ack":
			// the model answers empty/bad batches inside recv
		case "enqueue_intent":
			tc.out = append(tc.out, "trigger")
			tc.pending = true
		case "enqueued":
			if tc.enqSyn > 0 {
				tc.enqSyn--
				continue
			}
			if tc.qFull {
				// the send completed, so the worker has already received the previous request; its
				// flush_intent is logged later
				tc.out = append(tc.out, "take")
				tc.takeSyn++
				tc.qFull = false
			}
			tc.out = append(tc.out, "enqueued")
			tc.pending = false
			tc.qFull = true
		case "enqueue_abandoned":
			tc.needCancel()
			tc.out = append(tc.out, "enqabandon")
			tc.pending = false
		case "flush_intent":
			if tc.takeSyn > 0 {
				tc.takeSyn--
				continue
			}
			if !tc.qFull && tc.pending {
				// the worker received the request before the actor logged the completed send
				tc.out = append(tc.out, "enqueued")
				tc.pending = false
				tc.enqSyn++
				tc.qFull = true
			}
			tc.out = append(tc.out, "take")
			tc.qFull = false
		case "flush_abandon":
			tc.needCancel()
			tc.out = append(tc.out, "abandon")
		case "flush_begin":
			tc.out = append(tc.out, "begin")
		case "flush_done":
			tc.out = append(tc.out, "done "+b2s(!e.Err))
		case "stop_call":
			tc.out = append(tc.out, "stopbegin")
		case "stop_stopped":
			tc.out = append(tc.out, "stopcall")
		case "stop_drain":
			if !drained {
				tc.out = append(tc.out, "stopdrain")
				drained = true
				queue = nil
			}
		case "actor_exit":
			tc.out = append(tc.out, "actorexit")
		case "worker_exit":
			tc.out = append(tc.out, "workerexit")
		case "stop_ret":
			if e.Err {
				if !tc.deadl {
					tc.out = append(tc.out, "deadline")
					tc.deadl = true
				}
				tc.out = append(tc.out, "stopret 0")
				tc.aft = true // the repaired Stop cancels the flush context itself
			} else {
				tc.out = append(tc.out, "stopret 1")
			}
		}
	}
	for k, id := range idOfInst {
		if k.n == accNLast(accN, k.addr) {
			tc.idOf[k.addr] = id
		}
	}
	return tc.out
}

func accNLast(m map[uintptr]int, a uintptr) int { return m[a] }

// lateAfterCtx is a context whose AfterFunc callbacks run `lag` after it is done (a legal
// context.Context implementation; context.AfterFunc uses the method when it is present).
type lateAfterCtx struct {
	done chan struct{}
	err  atomic.Value
	lag  time.Duration
	dl   time.Time
}

func newLateAfterCtx(timeout, lag time.Duration) *lateAfterCtx {
	c := &lateAfterCtx{done: make(chan struct{}), lag: lag, dl: time.Now().Add(timeout)}
	time.AfterFunc(timeout, func() {
		c.err.Store(context.DeadlineExceeded)
		close(c.done)
	})
	return c
}
func (c *lateAfterCtx) Deadline() (time.Time, bool) { return c.dl, true }
func (c *lateAfterCtx) Done() <-chan struct{}       { return c.done }
func (c *lateAfterCtx) Err() error {
	if e := c.err.Load(); e != nil {
		return e.(error)
	}
	return nil
}
func (c *lateAfterCtx) Value(any) any { return nil }
func (c *lateAfterCtx) AfterFunc(f func()) func() bool {
	var stopped atomic.Bool
	go func() {
		<-c.done
		time.Sleep(c.lag)
		if !stopped.Load() {
			f()
		}
	}()
	return func() bool { return !stopped.Swap(true) }
}

// gate blocks selected store calls until released.
type gate struct {
	mu      sync.Mutex
	match   func(op, file string) bool
	ch      chan struct{}
	blocked atomic.Int32
}

func newGate(match func(op, file string) bool) *gate {
	return &gate{match: match, ch: make(chan struct{})}
}
func (g *gate) hook(op, file string) {
	if g.match(op, file) {
		g.blocked.Add(1)
		<-g.ch
		g.blocked.Add(-1)
	}
}
func (g *gate) release() {
	g.mu.Lock()
	defer g.mu.Unlock()
	select {
	case <-g.ch:
	default:
		close(g.ch)
	}
}
func (g *gate) waitBlocked(d time.Duration) bool {
	dl := time.Now().Add(d)
	for time.Now().Before(dl) {
		if g.blocked.Load() > 0 {
			return true
		}
		time.Sleep(time.Millisecond)
	}
	return false
}

var errStopped = bs.ErrEngineStopped

func isStopped(err error) bool { return errors.Is(err, errStopped) }

func joinTrace(evs []string) string { return strings.Join(evs, " ") }
