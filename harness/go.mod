module verif/harness

go 1.26.0

require (
	github.com/bits-and-blooms/bloom/v3 v3.7.0
	github.com/danthegoodman1/bloomsearch v0.0.0
	github.com/klauspost/compress v1.18.0
)

require (
	github.com/bits-and-blooms/bitset v1.10.0 // indirect
	github.com/tidwall/gjson v1.18.0 // indirect
	github.com/tidwall/match v1.1.1 // indirect
	github.com/tidwall/pretty v1.2.0 // indirect
)

replace github.com/danthegoodman1/bloomsearch => /repo
