package main

// C25: constructors (And/Or flattening), builder chains and JSON round trips of bloom / regex /
// prefilter expressions and Query, against the Lean model.

import (
	"bytes"
	"encoding/json"
	"fmt"
	"io"
	"reflect"
	"time"

	bs "github.com/danthegoodman1/bloomsearch"
)

func init() { props["C25"] = runC25 }

// jvTok encodes arbitrary JSON as the driver's JV prefix form (numbers must be integers).
func jvTok(t *toks, data []byte) error {
	dec := json.NewDecoder(bytes.NewReader(data))
	dec.UseNumber()
	if err := jvValue(t, dec); err != nil {
		return err
	}
	if _, err := dec.Token(); err != io.EOF {
		return fmt.Errorf("trailing data")
	}
	return nil
}

func jvValue(t *toks, dec *json.Decoder) error {
	tk, err := dec.Token()
	if err != nil {
		return err
	}
	switch v := tk.(type) {
	case nil:
		t.add("N")
	case string:
		t.add("S").s(v)
	case json.Number:
		t.add("I").add(string(v))
	case bool:
		return fmt.Errorf("unexpected bool")
	case json.Delim:
		if v == '[' {
			var sub toks
			n := 0
			for dec.More() {
				if err := jvValue(&sub, dec); err != nil {
					return err
				}
				n++
			}
			dec.Token()
			t.add("A").n(n)
			if n > 0 {
				t.add(sub.String())
			}
		} else {
			var sub toks
			n := 0
			for dec.More() {
				k, err := dec.Token()
				if err != nil {
					return err
				}
				sub.s(k.(string))
				if err := jvValue(&sub, dec); err != nil {
					return err
				}
				n++
			}
			dec.Token()
			t.add("O").n(n)
			if n > 0 {
				t.add(sub.String())
			}
		}
	}
	return nil
}

func bloomStr(e *bs.BloomExpression) string { var t toks; bloomExprTok(&t, e); return t.String() }
func regexStr(e *bs.RegexExpression) string { var t toks; regexExprTok(&t, e); return t.String() }
func preStr(e *bs.PrefilterExpression) string {
	var t toks
	preExprTok(&t, e)
	return t.String()
}

func optStr(nilp bool, s func() string) string {
	if nilp {
		return "N"
	}
	return "S " + s()
}

var c25Rows = [][]byte{
	[]byte(`{"level":"ERROR","msg":"ERROR in module x"}`),
	[]byte(`{"a":{"b":"x y x"},"tags":["x","y"]}`),
	[]byte(`{"a":{"b":"x y"},"level":"error","tags":["admin","dev"],"n":5}`),
	[]byte(`{"a":{"b":"y"},"level":"warn","tags":[],"n":6}`),
	[]byte(`{"level":"info","msg":"hello world","user":"alice"}`),
	[]byte(`{}`),
}

func runC25(c *ctx) {
	c.r.Rule = "constructors And/Or (3 kinds) vs Lean mkAnd/mkOr on random argument lists (incl. same-type children with and without a Condition); random builder call sequences vs the Lean builder fold; " +
		"json.Marshal of random trees vs the Lean encoder, json.Unmarshal vs the Lean decoder, decoded tree vs original, and evaluation/query equality after the round trip; Query round trip. " +
		"Non-trivial = tree with at least one child or condition; distinct by input text"
	r := NewRng(c.seed, 250)
	p := buildPools([][]byte{[]byte(`{"a":{"b":"x y"},"level":"error","tags":["admin","dev"],"n":5}`)}, tokModes[0])
	pLeaf := []*pools{buildPools(c25Rows, tokModes[0]), buildPools(c25Rows, tokModes[1])}
	n := 1500 * c.scale
	for i := 0; i < n; i++ {
		// ---- constructors
		k := r.IntN(4)
		var bes []bs.BloomExpression
		var res []bs.RegexExpression
		var pes []bs.PrefilterExpression
		for j := 0; j < k; j++ {
			bes = append(bes, genBloomExpr(r, p, 2))
			res = append(res, genRegexExpr(r, p, 2, true))
			pes = append(pes, genPreExpr(r, 2, nil))
		}
		if i%3 == 0 {
			// arguments that all talk about one leaf of one sample row (the same token under Token and FieldToken,
			// repeated tokens): where a matcher's per-leaf bookkeeping shows
			le := pLeaf[(i/3)%2].leafExpr(r)
			for j := range bes {
				if j < len(le.Children) {
					bes[j] = le.Children[j]
				}
			}
		}
		for _, which := range []string{"and", "or"} {
			var gb bs.BloomExpression
			var gr bs.RegexExpression
			var gp bs.PrefilterExpression
			if which == "and" {
				gb, gr, gp = bs.And(bes...), bs.RegexAnd(res...), bs.PrefilterAnd(pes...)
			} else {
				gb, gr, gp = bs.Or(bes...), bs.RegexOr(res...), bs.PrefilterOr(pes...)
			}
			check := func(kind, got string, args []string) {
				t := (&toks{}).add("mk", which, kind).n(len(args))
				for _, a := range args {
					t.add(a)
				}
				want := c.m.Ask(t.String())
				c.r.Case(len(args) > 0, t.String())
				if got != want {
					c.r.Add(Finding{Kind: "disagreement", Check: "constructor-" + which + "-" + kind, Detail: "constructor result differs from the Lean mkAnd/mkOr (flattening)", Replay: map[string]any{"line": t.String(), "impl": got, "model": want}})
				}
			}
			var a1, a2, a3 []string
			for j := range bes {
				a1 = append(a1, bloomStr(&bes[j]))
				a2 = append(a2, regexStr(&res[j]))
				a3 = append(a3, preStr(&pes[j]))
			}
			// meaning: the constructor's result must select exactly the rows the plain nested tree selects
			typ := bs.BloomExpressionAnd
			if which == "or" {
				typ = bs.BloomExpressionOr
			}
			lit := bs.BloomExpression{ExpressionType: typ, Children: bes}
			for _, row := range c25Rows {
				g, _, e1 := bs.VerifMatchRow(row, &bs.BloomQuery{Expression: &gb}, nil, tokModes[0].fn)
				l, _, e2 := bs.VerifMatchRow(row, &bs.BloomQuery{Expression: &lit}, nil, tokModes[0].fn)
				if e1 == nil && e2 == nil && g != l {
					c.r.Add(Finding{Kind: "violation", Check: "constructor-changes-meaning", Detail: fmt.Sprintf("%s(args...) matches=%v but the nested tree {%s, children: args} matches=%v on row %s", which, g, typ, l, row),
						Replay: map[string]any{"args": bes, "constructed": gb, "row": string(row)}})
					break
				}
			}
			// compositionality on the implementation's own matcher, default and custom tokenizer: And is true
			// exactly when every argument is, Or when some argument is
			for _, tm := range []tokMode{tokModes[0], tokModes[1]} {
				for _, row := range c25Rows {
					whole, _, e0 := bs.VerifMatchRow(row, &bs.BloomQuery{Expression: &gb}, nil, tm.fn)
					if e0 != nil {
						continue
					}
					all, some := true, false
					for j := range bes {
						v, _, _ := bs.VerifMatchRow(row, &bs.BloomQuery{Expression: &bes[j]}, nil, tm.fn)
						all = all && v
						some = some || v
					}
					want := all
					if which == "or" {
						want = some
					}
					if whole != want {
						c.r.Add(Finding{Kind: "violation", Check: "tree-not-compositional", Detail: fmt.Sprintf("%s(args...) evaluates to %v on row %s under the %s tokenizer, but its arguments evaluate to all=%v any=%v", which, whole, row, tm.name, all, some),
							Replay: map[string]any{"args": bes, "row": string(row), "tokenizer": tm.name}})
						break
					}
				}
			}
			check("B", bloomStr(&gb), a1)
			check("R", regexStr(&gr), a2)
			check("P", preStr(&gp), a3)
		}
		// ---- builder
		nops := r.IntN(7)
		var addedB []bs.BloomExpression
		var addedR []bs.RegexExpression
		b := bs.NewQuery()
		bt := (&toks{}).add("builder").n(nops)
		for j := 0; j < nops; j++ {
			switch r.Pick(7) {
			case 0:
				f := p.path(r)
				b.Field(f)
				addedB = append(addedB, bs.Field(f))
				bt.add("field").s(f)
			case 1:
				x := p.token(r)
				b.Token(x)
				addedB = append(addedB, bs.Token(x))
				bt.add("token").s(x)
			case 2:
				f, x := p.path(r), p.token(r)
				b.FieldToken(f, x)
				addedB = append(addedB, bs.FieldToken(f, x))
				bt.add("fieldtoken").s(f).s(x)
			case 3:
				e := genBloomExpr(r, p, 2)
				b.Match(e)
				addedB = []bs.BloomExpression{e} // Match replaces what was built so far
				bt.add("match").add(bloomStr(&e))
			case 4:
				f, pat := p.path(r), pick(r, patternPool)
				b.FieldRegex(f, pat)
				addedR = append(addedR, bs.FieldRegex(f, pat))
				bt.add("fieldregex").s(f).s(pat)
			case 5:
				e := genRegexExpr(r, p, 2, true)
				b.MatchRegex(e)
				addedR = []bs.RegexExpression{e}
				bt.add("matchregex").add(regexStr(&e))
			default:
				e := genPreExpr(r, 2, nil)
				b.MatchPrefilter(e)
				bt.add("matchpre").add(preStr(&e))
			}
		}
		q := b.Build()
		// meaning of a chain: the conjunction of what was added (after the last Match / MatchRegex)
		if len(addedB) > 0 || len(addedR) > 0 {
			var lb *bs.BloomQuery
			var lr *bs.RegexQuery
			if len(addedB) > 0 {
				lb = &bs.BloomQuery{Expression: &bs.BloomExpression{ExpressionType: bs.BloomExpressionAnd, Children: addedB}}
			}
			if len(addedR) > 0 {
				lr = &bs.RegexQuery{Expression: &bs.RegexExpression{ExpressionType: bs.RegexExpressionAnd, Children: addedR}}
			}
			for _, row := range c25Rows {
				g, _, e1 := bs.VerifMatchRow(row, q.Bloom, q.Regex, tokModes[0].fn)
				l, _, e2 := bs.VerifMatchRow(row, lb, lr, tokModes[0].fn)
				if e1 == nil && e2 == nil && g != l {
					c.r.Add(Finding{Kind: "violation", Check: "builder-changes-meaning", Detail: fmt.Sprintf("the built query matches=%v, the conjunction of the chained conditions matches=%v on row %s", g, l, row), Replay: map[string]any{"line": bt.String(), "row": string(row), "built_bloom": q.Bloom, "built_regex": q.Regex}})
					break
				}
			}
		}
		got := optStr(q.Prefilter.Expression == nil, func() string { return preStr(q.Prefilter.Expression) }) + " | " +
			optStr(q.Bloom.Expression == nil, func() string { return bloomStr(q.Bloom.Expression) }) + " | " +
			optStr(q.Regex.Expression == nil, func() string { return regexStr(q.Regex.Expression) })
		want := c.m.Ask(bt.String())
		c.r.Case(nops > 0, bt.String())
		if i < 2 {
			c.r.Sample(map[string]any{"check": "builder", "line": trunc(bt.String(), 300), "impl": trunc(got, 300)})
		}
		if got != want {
			c.r.Add(Finding{Kind: "disagreement", Check: "builder", Detail: "builder chain result differs from the Lean builder fold", Replay: map[string]any{"line": bt.String(), "impl": got, "model": want}})
		}
		// ---- JSON round trips
		be, re, pe := genBloomExpr(r, p, 3), genRegexExpr(r, p, 3, true), genPreExpr(r, 3, nil)
		rt := func(kind, orig string, v any, out any, show func() string) {
			data, err := json.Marshal(v)
			if err != nil {
				c.r.Add(Finding{Kind: "violation", Check: "json-marshal", Detail: err.Error(), Replay: map[string]any{"expr": orig}})
				return
			}
			var jt toks
			if err := jvTok(&jt, data); err != nil {
				fatal("jv: %v in %s", err, data)
			}
			wantEnc := c.m.Ask("enc " + kind + " " + orig)
			c.r.Case(true, "enc "+kind+orig)
			if jt.String() != wantEnc {
				c.r.Add(Finding{Kind: "disagreement", Check: "json-encode-" + kind, Detail: "json.Marshal output differs from the Lean encoder", Replay: map[string]any{"expr": orig, "json": string(data), "impl": jt.String(), "model": wantEnc}})
			}
			if err := json.Unmarshal(data, out); err != nil {
				c.r.Add(Finding{Kind: "violation", Check: "json-unmarshal", Detail: err.Error(), Replay: map[string]any{"json": string(data)}})
				return
			}
			back := show()
			if back != orig {
				c.r.Add(Finding{Kind: "violation", Check: "json-roundtrip-" + kind, Detail: "expression changed across a JSON round trip", Replay: map[string]any{"json": string(data), "before": orig, "after": back}})
			}
			wantDec := c.m.Ask("dec " + kind + " " + jt.String())
			if wantDec != back {
				c.r.Add(Finding{Kind: "disagreement", Check: "json-decode-" + kind, Detail: "json.Unmarshal result differs from the Lean decoder", Replay: map[string]any{"json": string(data), "impl": back, "model": wantDec}})
			}
		}
		var be2 bs.BloomExpression
		var re2 bs.RegexExpression
		var pe2 bs.PrefilterExpression
		rt("B", bloomStr(&be), be, &be2, func() string { return bloomStr(&be2) })
		rt("R", regexStr(&re), re, &re2, func() string { return regexStr(&re2) })
		rt("P", preStr(&pe), pe, &pe2, func() string { return preStr(&pe2) })
		// ---- Query round trip
		qq := genQuery(r, p, true)
		if r.Chance(0.6) {
			e := genPreExpr(r, 2, nil)
			qq.Prefilter = &bs.QueryPrefilter{Expression: &e}
		} else if r.Chance(0.5) {
			qq.Prefilter = &bs.QueryPrefilter{}
		}
		data, err := json.Marshal(qq)
		if err != nil {
			c.r.Add(Finding{Kind: "violation", Check: "query-marshal", Detail: err.Error(), Replay: map[string]any{"query": qq}})
			continue
		}
		var jt toks
		jvTok(&jt, data)
		qt := (&toks{}).add("encq")
		if qq.Prefilter == nil {
			qt.add("N")
		} else {
			qt.add("S")
			prefilterTok(qt, qq.Prefilter)
		}
		if qq.Bloom == nil {
			qt.add("N")
		} else {
			qt.add("S")
			bloomQueryTok(qt, qq.Bloom)
		}
		if qq.Regex == nil {
			qt.add("N")
		} else {
			qt.add("S")
			regexQueryTok(qt, qq.Regex)
		}
		if want := c.m.Ask(qt.String()); want != jt.String() {
			c.r.Add(Finding{Kind: "disagreement", Check: "query-encode", Detail: "json.Marshal(Query) differs from the Lean encoder", Replay: map[string]any{"json": string(data), "impl": jt.String(), "model": want}})
		}
		var q2 bs.Query
		if err := json.Unmarshal(data, &q2); err != nil {
			c.r.Add(Finding{Kind: "violation", Check: "query-unmarshal", Detail: err.Error(), Replay: map[string]any{"json": string(data)}})
			continue
		}
		data2, _ := json.Marshal(&q2)
		if !bytes.Equal(data, data2) {
			c.r.Add(Finding{Kind: "violation", Check: "query-roundtrip", Detail: "Query changed across a JSON round trip", Replay: map[string]any{"before": string(data), "after": string(data2)}})
		}
		_ = reflect.DeepEqual
	}
	c25Eval(c)
	c25PrefilterRoundTrip(c)
	c25SharedExpressions(c)
	c25KnownInvalidUTF8(c)
}

// c25Eval: a decoded query returns the same rows as the original on a small engine.
func c25Eval(c *ctx) {
	r := NewRng(c.seed, 251)
	for hi := 0; hi < 3*c.scale; hi++ {
		h := NewHistory(r)
		h.Run(r, 8, c.r)
		layout, err := h.Layout()
		if err != nil {
			h.Env.Stop()
			continue
		}
		var rowBytes [][]byte
		for _, f := range layout {
			for _, b := range f.Blocks {
				rowBytes = append(rowBytes, b.Rows...)
			}
		}
		p := buildPools(rowBytes, h.TM)
		for qi := 0; qi < 25; qi++ {
			q := genQuery(r, p, false)
			q.Prefilter = genPrefilterFor(r, h)
			data, _ := json.Marshal(q)
			var q2 bs.Query
			if err := json.Unmarshal(data, &q2); err != nil {
				c.r.Add(Finding{Kind: "violation", Check: "query-unmarshal", Detail: err.Error(), Replay: map[string]any{"json": string(data)}})
				continue
			}
			a, b := h.Env.Query(q), h.Env.Query(&q2)
			c.r.Case(len(a.Rows) > 0, fmt.Sprint("evalrt", hi, qi))
			// a tree means the same at every stage: without a prefilter, the engine's answer (pruning by file and
			// block filters, then row verification) is exactly the rows the tree is true of
			if qi%2 == 0 {
				qn := &bs.Query{Bloom: q.Bloom, Regex: q.Regex}
				if qi%4 == 0 {
					// degenerate nodes the constructors do not flatten away
					e := pick(r, []bs.BloomExpression{bs.And(), bs.Or(bs.And(), bs.Token("no-such-token-anywhere")), bs.And(bs.Or(bs.And(), bs.Field("no.such.field")), bs.And()), bs.Or()})
					qn = &bs.Query{Bloom: &bs.BloomQuery{Expression: &e}}
					if qi%8 == 0 {
						re := bs.RegexAnd()
						qn = &bs.Query{Regex: &bs.RegexQuery{Expression: &re}}
					}
				}
				want := map[int]int{}
				bad := false
				for _, rb := range rowBytes {
					m, _, merr := bs.VerifMatchRow(rb, qn.Bloom, qn.Regex, h.TM.fn)
					if merr != nil {
						bad = true
						break
					}
					if m {
						var probe struct {
							ID int `json:"_id"`
						}
						json.Unmarshal(rb, &probe)
						want[probe.ID]++
					}
				}
				if !bad {
					out := h.Env.Query(qn)
					c.r.Hit("c25.engine-vs-tree-meaning")
					if got := idsOf(out.Rows); out.Err == nil && fmt.Sprint(got) != fmt.Sprint(want) {
						qj, _ := json.Marshal(qn)
						c.r.Add(Finding{Kind: "violation", Check: "tree-meaning-differs-by-stage", Detail: fmt.Sprintf("the engine returns ids %v for a query without prefilter, the tree evaluated row by row is true of %v: pruning and row verification read the tree differently", trunc(fmt.Sprint(got), 200), trunc(fmt.Sprint(want), 200)), Replay: map[string]any{"ops": h.Ops, "json": string(qj), "tokenizer": h.TM.name}})
					}
				}
			}
			if fmt.Sprint(sortedIDs(a.Rows)) != fmt.Sprint(sortedIDs(b.Rows)) || (a.Err == nil) != (b.Err == nil) {
				c.r.Add(Finding{Kind: "violation", Check: "query-roundtrip-results", Detail: "a query and its JSON round trip return different results", Replay: map[string]any{"ops": h.Ops, "json": string(data)}})
			}
		}
		h.Env.Stop()
	}
}

// c25PrefilterRoundTrip: a file with several blocks (one per partition) whose metadata the MetaStore keeps in
// memory; partition prefilters that keep a later block and drop an earlier one, each evaluated as written
// and after a JSON round trip: both must return the partition's rows, every time.
func c25PrefilterRoundTrip(c *ctx) {
	cfg := bs.DefaultBloomSearchEngineConfig()
	cfg.PartitionFunc = partitionFunc("p")
	cfg.MaxBufferedTime = time.Hour
	env := NewEnv(cfg)
	defer env.Stop()
	want := map[string][]int{}
	var rows []map[string]any
	id := 0
	for _, pv := range []string{"ta", "tb", "tc"} {
		for j := 0; j < 2; j++ {
			id++
			rows = append(rows, map[string]any{"_id": id, "p": pv})
			want[pv] = append(want[pv], id)
		}
	}
	env.IngestWait(rows)
	for round := 0; round < 2; round++ {
		for _, pv := range []string{"tc", "tb", "ta", "tb"} {
			q := bs.NewQuery().MatchPrefilter(bs.Partition(bs.PartitionEquals(pv))).Build()
			data, _ := json.Marshal(q)
			var q2 bs.Query
			if err := json.Unmarshal(data, &q2); err != nil {
				c.r.Add(Finding{Kind: "violation", Check: "query-unmarshal", Detail: err.Error(), Replay: map[string]any{"json": string(data)}})
				continue
			}
			a, b := env.Query(q), env.Query(&q2)
			c.r.Case(true, fmt.Sprint("prefilter-roundtrip", round, pv))
			if fmt.Sprint(sortedIDs(a.Rows)) != fmt.Sprint(want[pv]) || fmt.Sprint(sortedIDs(b.Rows)) != fmt.Sprint(want[pv]) {
				c.r.Add(Finding{Kind: "violation", Check: "query-roundtrip-results", Detail: fmt.Sprintf("Partition == %s returns %v as written and %v after a JSON round trip; the partition holds %v", pv, sortedIDs(a.Rows), sortedIDs(b.Rows), want[pv]), Replay: map[string]any{"json": string(data), "round": round}})
			}
		}
	}
}

func sortedIDs(rows []map[string]any) []int {
	m := idsOf(rows)
	var out []int
	for id, n := range m {
		for i := 0; i < n; i++ {
			out = append(out, id)
		}
	}
	sortInts(out)
	return out
}

// c25KnownInvalidUTF8: expression strings that are not valid UTF-8 do not survive encoding/json
// (U+FFFD substitution). Deterministic reproducer of a recorded finding.
func c25KnownInvalidUTF8(c *ctx) {
	e := bs.Token("\xff")
	data, _ := json.Marshal(e)
	var back bs.BloomExpression
	json.Unmarshal(data, &back)
	if back.Condition == nil || back.Condition.Token != e.Condition.Token {
		c.r.Add(Finding{Kind: "violation", Check: "json-roundtrip-invalid-utf8", Key: "invalid-utf8-expression-string",
			Detail: fmt.Sprintf("Token(%q) becomes Token(%q) after a JSON round trip (encoding/json replaces invalid UTF-8 with U+FFFD)", e.Condition.Token, back.Condition.Token),
			Replay: map[string]any{"token_bytes": []byte(e.Condition.Token), "json": string(data)}})
	}
}

// c25SharedExpressions: expressions are values. One expression (its child slice built with spare capacity, as
// `And(And(a, b), c)` or any append-built slice has) is handed to several builders and constructors; whatever
// is built later, a query built earlier - and the shared expression itself - must keep its meaning. Each is
// snapshotted as JSON when built and compared again after every later construction.
func c25SharedExpressions(c *ctx) {
	r := NewRng(c.seed, 251)
	js := func(v any) string { b, _ := json.Marshal(v); return string(b) }
	for i := 0; i < 40*c.scale; i++ {
		n := 2 + r.IntN(3)
		spare := r.IntN(4)
		// bloom
		kids := make([]bs.BloomExpression, 0, n+spare)
		for j := 0; j < n; j++ {
			kids = append(kids, bs.FieldToken(fmt.Sprintf("f%d", j), fmt.Sprintf("v%d", j)))
		}
		var base bs.BloomExpression
		switch r.Pick(3) {
		case 0:
			base = bs.BloomExpression{ExpressionType: bs.BloomExpressionAnd, Children: kids}
		case 1:
			base = bs.BloomExpression{ExpressionType: bs.BloomExpressionOr, Children: kids}
		default:
			base = bs.And(bs.And(kids[:n-1]...), kids[n-1]) // the flattening constructor's own result
		}
		// regex
		rkids := make([]bs.RegexExpression, 0, n+spare)
		for j := 0; j < n; j++ {
			rkids = append(rkids, bs.FieldRegex(fmt.Sprintf("f%d", j), fmt.Sprintf("^v%d", j)))
		}
		rbase := bs.RegexExpression{ExpressionType: pick(r, []bs.RegexExpressionType{bs.RegexExpressionAnd, bs.RegexExpressionOr}), Children: rkids}
		if r.Chance(0.3) {
			rbase = bs.RegexAnd(bs.RegexAnd(rkids[:n-1]...), rkids[n-1])
		}
		baseSnap, rbaseSnap := js(base), js(rbase)
		type built struct {
			what string
			v    any
			snap string
		}
		var all []built
		add := func(what string, v any) { all = append(all, built{what, v, js(v)}) }
		steps := 2 + r.IntN(3)
		for s := 0; s < steps; s++ {
			tag := fmt.Sprintf("x%d", s)
			switch r.Pick(6) {
			case 0:
				add("NewQuery().Match(base).FieldToken", bs.NewQuery().Match(base).FieldToken("region", tag).Build())
			case 1:
				add("NewQuery().Match(base).Token", bs.NewQuery().Match(base).Token(tag).Field("k"+tag).Build())
			case 2:
				e := bs.And(base, bs.Token(tag))
				add("And(base, Token)", &e)
			case 3:
				e := bs.Or(base, bs.Token(tag))
				add("Or(base, Token)", &e)
			case 4:
				add("NewQuery().MatchRegex(rbase).FieldRegex", bs.NewQuery().MatchRegex(rbase).FieldRegex("msg", tag).Build())
			default:
				e := bs.RegexAnd(rbase, bs.FieldRegex("msg", tag))
				add("RegexAnd(rbase, FieldRegex)", &e)
			}
			c.r.Case(true, fmt.Sprint("shared-expr", i, s))
			c.r.Hit("c25.shared-expression")
			bad := ""
			for _, b := range all[:len(all)-1] {
				if now := js(b.v); now != b.snap {
					bad = fmt.Sprintf("the value built earlier by %s changed after %s was built from the same expression: %s -> %s", b.what, all[len(all)-1].what, trunc(b.snap, 200), trunc(now, 200))
					break
				}
			}
			if bad == "" && (js(base) != baseSnap || js(rbase) != rbaseSnap) {
				bad = fmt.Sprintf("the shared expression itself changed after %s was built from it", all[len(all)-1].what)
			}
			if bad != "" {
				c.r.Add(Finding{Kind: "violation", Check: "expression-aliasing", Detail: bad, Replay: map[string]any{"children": n, "spare_capacity": spare, "base": baseSnap, "regex_base": rbaseSnap}})
				break
			}
		}
	}
}
